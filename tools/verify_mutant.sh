#!/bin/sh
# Confirms a sub-agent's seeded change inside its own scratch worktree (no git stash: stashes are shared between worktrees):
#   the worktree's diff equals MUTANT/patch.diff, the demo fails with the change, passes without it, and the
#   repository's test-suite passes with the change.   usage: tools/verify_mutant.sh /tmp/mut-CXX
W=$1
cd "$W" || exit 2
export CARGO_TARGET_DIR=$W/target CARGO_NET_OFFLINE=true
git checkout -q -- src Cargo.toml 2>/dev/null
git apply --whitespace=nowarn MUTANT/patch.diff || { echo "patch does not apply to a clean worktree"; exit 2; }
echo "== with change: demo"; bash MUTANT/demo.sh >/tmp/vm_with.log 2>&1; a=$?; tail -3 /tmp/vm_with.log; echo "demo exit (with change) = $a"
[ -n "$SKIPTESTS" ] || { echo "== tests with change"; cargo test --offline 2>&1 | grep -E "^test result|FAILED"; }
git apply -R --whitespace=nowarn MUTANT/patch.diff
echo "== without change: demo"; bash MUTANT/demo.sh >/tmp/vm_without.log 2>&1; b=$?; tail -2 /tmp/vm_without.log; echo "demo exit (without change) = $b"
git apply --whitespace=nowarn MUTANT/patch.diff
echo "RESULT with=$a without=$b"
