#!/usr/bin/python3
"""Re-runs every seeded change against the check of the property it breaks (quick tier) and reports which are still caught.
usage: tools/regress_mutants.py [name-substring] [--repo <scratch worktree>] [--lane k/n]
(uses tools/mutant.py: applies to /repo - or to the scratch worktree -, runs, undoes; --lane k/n takes every n-th change)"""
import json, os, re, subprocess, sys
V = os.path.dirname(os.path.dirname(os.path.abspath(__file__)))
args = sys.argv[1:]
repo = None
lane = (0, 1)
flt = ""
i = 0
while i < len(args):
    if args[i] == "--repo":
        repo = args[i + 1]; i += 2
    elif args[i] == "--lane":
        k, n = args[i + 1].split("/"); lane = (int(k), int(n)); i += 2
    else:
        flt = args[i]; i += 1
missed = []
names = [n for n in sorted(os.listdir(os.path.join(V, "seeded"))) if flt in n and os.path.isdir(os.path.join(V, "seeded", n))]
for idx, name in enumerate(names):
    if idx % lane[1] != lane[0]:
        continue
    d = os.path.join(V, "seeded", name)
    mp = os.path.join(d, "meta.json")
    prop = json.load(open(mp))["property"] if os.path.exists(mp) else name[:3]
    r = subprocess.run([os.path.join(V, "tools/mutant.py"), os.path.join(d, "patch.diff"), "--checks", prop] + (["--repo", repo] if repo else []),
                       stdout=subprocess.PIPE, stderr=subprocess.STDOUT, text=True)
    caught = "CAUGHT BY: " + prop in r.stdout
    m = re.search(r"signature=(\S+)", r.stdout)
    print("%-45s %s  %s" % (name, "caught " if caught else "MISSED ", (m.group(1)[:110] if m else r.stdout.strip().splitlines()[-1][:110])))
    sys.stdout.flush()
    if not caught:
        missed.append(name)
print("missed:", missed or "none")
sys.exit(1 if missed else 0)
