#!/usr/bin/python3
"""Re-runs every seeded change against the check of the property it breaks (quick tier) and reports which are still caught.
usage: tools/regress_mutants.py [name-substring]   (uses tools/mutant.py: applies to /repo, runs, undoes)"""
import json, os, re, subprocess, sys
V = os.path.dirname(os.path.dirname(os.path.abspath(__file__)))
flt = sys.argv[1] if len(sys.argv) > 1 else ""
missed = []
for name in sorted(os.listdir(os.path.join(V, "seeded"))):
    if flt not in name:
        continue
    d = os.path.join(V, "seeded", name)
    mp = os.path.join(d, "meta.json")
    prop = json.load(open(mp))["property"] if os.path.exists(mp) else name[:3]
    r = subprocess.run([os.path.join(V, "tools/mutant.py"), os.path.join(d, "patch.diff"), "--checks", prop],
                       stdout=subprocess.PIPE, stderr=subprocess.STDOUT, text=True)
    caught = "CAUGHT BY: " + prop in r.stdout
    m = re.search(r"signature=(\S+)", r.stdout)
    print("%-45s %s  %s" % (name, "caught " if caught else "MISSED ", (m.group(1)[:110] if m else r.stdout.strip().splitlines()[-1][:110])))
    sys.stdout.flush()
    if not caught:
        missed.append(name)
print("missed:", missed or "none")
sys.exit(1 if missed else 0)
