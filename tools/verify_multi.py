#!/usr/bin/python3
"""Confirms sub-agent mutants delivered as <worktree>/MUTANT<k>/ (k = 1..3): for each, the patch applies to a clean worktree,
the demo exits 1 with it and 0 without it, and the repository's test-suite passes with it.
usage: tools/verify_multi.py /tmp/mut-C01 [/tmp/mut-C02 ...]   (worktrees are processed in parallel, 6 at a time)"""
import concurrent.futures, json, os, re, subprocess, sys

def sh(cmd, cwd, env=None, timeout=3600):
    try:
        r = subprocess.run(cmd, shell=True, cwd=cwd, env=env, stdout=subprocess.PIPE, stderr=subprocess.STDOUT, text=True, timeout=timeout)
        return r.returncode, r.stdout
    except subprocess.TimeoutExpired:
        return 124, "timeout"

def one(w):
    env = dict(os.environ, CARGO_TARGET_DIR=os.path.join(w, "target"), CARGO_NET_OFFLINE="true")
    out = {}
    for k in (1, 2, 3):
        d = os.path.join(w, "MUTANT%d" % k)
        if not os.path.exists(os.path.join(d, "patch.diff")) or not os.path.exists(os.path.join(d, "demo.sh")):
            out[k] = {"status": "missing"}
            continue
        sh("git checkout -q -- src Cargo.toml", w)
        rc, o = sh("git apply --whitespace=nowarn MUTANT%d/patch.diff" % k, w)
        if rc != 0:
            out[k] = {"status": "patch does not apply", "out": o[-300:]}
            continue
        a, oa = sh("bash MUTANT%d/demo.sh" % k, w, env, 1200)
        t, ot = sh("cargo test --offline 2>&1 | grep -E '^test result|FAILED'", w, env, 2400)
        passed = sum(int(x) for x in re.findall(r"(\d+) passed", ot))
        failed = ("FAILED" in ot) or sum(int(x) for x in re.findall(r"(\d+) failed", ot)) > 0
        sh("git apply -R --whitespace=nowarn MUTANT%d/patch.diff" % k, w)
        b, ob = sh("bash MUTANT%d/demo.sh" % k, w, env, 1200)
        out[k] = {"status": "ok" if (a == 1 and b == 0 and passed == 223 and not failed) else "REJECT",
                  "demo_with": a, "demo_without": b, "tests_passed": passed, "tests_failed": failed}
    sh("git checkout -q -- src Cargo.toml", w)
    return w, out

ws = sys.argv[1:]
with concurrent.futures.ThreadPoolExecutor(6) as ex:
    for w, out in ex.map(one, ws):
        print(w, json.dumps(out))
        sys.stdout.flush()
