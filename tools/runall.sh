#!/bin/sh
# Runs every check of one tier sequentially and prints the summary lines. usage: tools/runall.sh [quick|thorough] [ids...]
cd "$(dirname "$0")/.."
TIER=${1:-quick}; shift 2>/dev/null
IDS=${@:-C01 C02 C03 C04 C05 C06 C07 C08 C09 C10 C11 C12 C13 C14 C15 C16 C17 C18}
rc=0
for c in $IDS; do
  out=$(./check $c --tier $TIER 2>&1); e=$?
  echo "$out" | grep -E "^(VIOLATION|INCONCLUSIVE|C[0-9]+ )" | cut -c1-260
  echo "   -> exit $e"
  [ $e -ne 0 ] && echo "$out" | tail -15
  [ $e -ne 0 ] && rc=1
done
exit $rc
