#!/usr/bin/python3
"""Apply a seeded change to /repo, run checks against it, undo it.  usage: tools/mutant.py <patch.diff> [--checks C01,C02] [--tier quick] [--repo <scratch worktree>]
Evidence of these runs goes to .work/evidence-alt (VF_SCRATCH=1), never to evidence/."""
import os, subprocess, sys, time
V = os.path.dirname(os.path.dirname(os.path.abspath(__file__)))
ALL = ["C%02d" % i for i in range(1, 19)]
def sh(cmd, **kw):
    return subprocess.run(cmd, shell=True, stdout=subprocess.PIPE, stderr=subprocess.STDOUT, text=True, **kw)
def main():
    patch = os.path.abspath(sys.argv[1])
    checks = ALL
    tier = "quick"
    repo = "/repo"
    a = sys.argv[2:]
    for i, x in enumerate(a):
        if x == "--checks": checks = a[i + 1].split(",")
        if x == "--tier": tier = a[i + 1]
        if x == "--repo": repo = a[i + 1]      # a scratch worktree instead of /repo (checks then run with VF_REPO=<dir>)
    st = sh("git -C %s status --porcelain --untracked-files=no" % repo).stdout.strip()
    if st:
        print("refusing: repo has local changes:\n" + st); return 2
    r = sh("git -C %s apply --whitespace=nowarn %s" % (repo, patch))
    if r.returncode != 0:
        print("patch does not apply:\n" + r.stdout); return 2
    caught = {}
    try:
        env = dict(os.environ, VF_SCRATCH="1")
        if repo != "/repo": env["VF_REPO"] = repo
        for c in checks:
            t = time.time()
            r = sh("./check %s --tier %s" % (c, tier), cwd=V, env=env)
            outl = r.stdout.splitlines()
            viol = [l + " " + (outl[i + 1].strip() if i + 1 < len(outl) and outl[i + 1].startswith("  detail:") else "")
                    for i, l in enumerate(outl) if l.startswith("VIOLATION")]
            inc = [l for l in r.stdout.splitlines() if l.startswith("INCONCLUSIVE")]
            print("%s exit=%d violations=%d %s (%.0fs)" % (c, r.returncode, len(viol), ("INCONCLUSIVE: " + inc[0][:150]) if inc else "", time.time() - t))
            for l in viol[:3]:
                print("    " + l[:230])
            if viol: caught[c] = len(viol)
    finally:
        sh("git -C %s apply -R --whitespace=nowarn %s" % (repo, patch))
        sh("git -C %s checkout -- ." % repo)
        left = sh("git -C %s status --porcelain" % repo).stdout.strip()
        if left:
            print("WARNING: /repo not clean after undo:\n" + left)
    print("CAUGHT BY:", ", ".join(sorted(caught)) or "nothing")
    return 0
sys.exit(main())
