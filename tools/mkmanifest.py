#!/usr/bin/python3
"""Regenerates /verif/MANIFEST.json from the table below (run after adding a check)."""
import json, os
V = os.path.dirname(os.path.dirname(os.path.abspath(__file__)))
ALL = ["C%02d" % i for i in range(1, 19)]
CHECKS = {
 "C09": dict(cat="translation_validation", ref="5 C09",
   text="Closed Rust programs generated over the log macro grammar are compiled against log 0.4.22 (kv) and executed before and after an edit run by the real binary; the two record sequences (level, target, formatted message, ordered key-values) must be equal except for the documented reference prefix / ref key-value of each edited statement. Differential execution of N programs, not a proof over all programs.",
   note="rustc and the log crate are the semantics; capture modifiers :err/:sval/:serde cannot be compiled offline and are only parsed in C10/C13.",
   tech="runtime monitoring: differential execution (before/after) of generated programs with a recording logger"),
 "C17": dict(cat="exploration", ref="5 C17",
   text="Crafted edge cases, corpora mutated at byte/char/token level with Unicode injection, mutated generated statement files (incl. ID-boundary trees), random token soups, a 4.5 MB file and invalid-UTF-8 files next to good ones are run through both modes in batches; panics, aborts, fatal signals and CPU time over a calibrated budget (ordinary-shape inputs only) are violations; failing batches are bisected, the culprit delta-minimised, the rest re-run. Thorough adds an overflow-checks/debug-assertions build.",
   note="Logical time (CPU seconds vs calibrated budget); wall-clock watchdog only yields inconclusive; quadratic behaviour on non-ordinary shapes is outside the claim.",
   tech="runtime monitoring: mutation/generation stress workloads + crash/CPU-budget monitor; overflow-checks instrumented build"),
 "C02": dict(cat="fault_enumeration", ref="5 C02",
   text="Thousands of short histories (developer edits incl. deleting the highest-numbered statement, check/edit runs, edit runs with an injected errno, stop signal or kill at a seeded operation) are executed against the real binary; a checker-side ghost map id->first statement marker and the lock file are compared after every run: no id may ever belong to two statements and after every edit run the lock must exceed every id ever written. Violating histories are shrunk to minimal ones.",
   note="Unique statement markers make the history unambiguous (regex scan independent of Breadlog's parser); histories in which the harness removes the lock are not generated.",
   tech="runtime monitoring: history generation with fault/signal/kill injection (LD_PRELOAD shim) + offline ghost-state invariant checker"),
 "C07": dict(cat="fault_enumeration", ref="5 C07",
   text="For each driven project every filesystem operation of the (re-measured, deterministic) clean run is a crash/fault point: kill before, kill after, and every errno its kind admits (EIO/ENOSPC/EACCES/EROFS/EDQUOT/EMFILE/EXDEV, short write) are injected in fresh sandboxes; each source file must afterwards be byte-identical to its original or to its complete update. Exhaustive per small project, sampled writes for >64 KiB / >1 MiB files; the shim is audited against strace for blind spots in every run.",
   note="Crash = process death, not power loss; rename(2) atomicity trusted; shim coverage audited by strace.",
   tech="runtime monitoring: exhaustive per-operation crash/fault injection (LD_PRELOAD shim) + post-state oracle + trace rule"),
 "C08": dict(cat="fault_enumeration", ref="5 C08",
   text="Single, persistent, subset-scoped and double failures of temp-file creation, temp writes and renames (plus a genuine cross-device TMPDIR) are injected; a fired failure on an update operation must give a non-zero exit, an exit 0 must agree with the tokens on disk and a follow-up --check, and a normally exiting run must leave TMPDIR empty.",
   note="Short writes are not failures; faults hitting the cleanup unlink itself exempt the leftover clause.",
   tech="runtime monitoring: fault injection (LD_PRELOAD shim, real EXDEV) + exit-status/disk-state oracle"),
 "C18": dict(cat="fault_enumeration", ref="5 C18",
   text="SIGTERM and SIGINT are raised by the shim immediately before every filesystem operation of check and edit runs (exhaustive per project) and asynchronously by kill(2) at seeded random delays over a 150/300-file tree; the process must not die from the signal once discovery has begun, must not exit 0 with work left, must not start another file after the one in progress (shim log), must leave every source file original or complete and the lock above every id on disk.",
   note="'Moment' = operation boundary (synchronous, exhaustive) or sampled wall-clock instant (asynchronous); start-up window before the handlers exist exempt iff nothing modified.",
   tech="runtime monitoring: per-operation signal injection (LD_PRELOAD shim) + asynchronous kill(2) + event-log oracle"),
 "C01": dict(cat="exploration", ref="5 C01",
   text="Edit runs over generated trees cycling through ID-space classes (none, {0}, dense, gaps, duplicates, 2^31/2^16 boundaries, u32::MAX-k) x lock states (absent, disabled with stale lock, consistent) x style; inserted IDs (from the insertion decomposition) are checked for uniqueness, disjointness from existing IDs, range and ordering, and an exhausted range must end in a failing run. Thorough adds a build with integer-overflow checks (arithmetic sanitizer) and the real-code corpora.",
   note="Generator record of existing IDs; decomposition identifies inserted IDs; handing out the very last ID may be refused.",
   tech="runtime monitoring: generated ID-space workloads + conservation/uniqueness oracle; overflow-checks instrumented build"),
 "C03": dict(cat="exploration", ref="5 C03",
   text="Every file of every edit run (generated, mutated, >1 MiB / >=1000-insertion files, corpora, mutated corpora) is compared before/after by the insertion decomposition: removing the matched tokens must give back the original bytes, and statements that already carried a valid reference receive nothing. Required file classes must each have been observed changed.",
   note="Decomposition (DESIGN 4.1) is the definition of 'only inserts'; generator truth for already-referenced statements.",
   tech="runtime monitoring: before/after snapshot + insertion-decomposition oracle over real, generated and mutated inputs"),
 "C04": dict(cat="exploration", ref="5 C04",
   text="Every --check process runs under strace -f -y; an offline checker over the syscall log flags any successful kernel call that can mutate the filesystem, and full before/after snapshots (content, mode, mtime, inode, path set) of project, TMPDIR, cwd and an outside directory must be equal. Thorough enumerates the whole configuration product (exhaustive) and the corpora.",
   note="ptrace-level observation (cannot be bypassed by direct syscalls); writes to pipes/eventfds//dev are allowed.",
   tech="runtime monitoring: strace syscall-trace checker + snapshot equality"),
 "C05": dict(cat="exploration", ref="5 C05",
   text="Relational oracle on identical trees: locations and total reported by --check are compared (through the harness's own line/column model) with the insertion offsets and count of an edit run, plus exit statuses and printed count; generated, mutated and corpus trees, multi-byte/CRLF/tab content.",
   note="Line/column model of DESIGN 4.2; pinned stdout phrases; fault-free runs only.",
   tech="runtime monitoring: differential check-vs-edit oracle over observed executions"),
 "C06": dict(cat="exploration", ref="5 C06",
   text="Three runs per tree (edit, --check, edit): check must pass, the second edit must change no byte and leave the lock value, and the second edit's parser trace (hook) must read back every inserted token at its position with the inserted ID.",
   note="Hook trace for the read-back clause; canonical statement space as precondition.",
   tech="runtime monitoring: fixpoint/round-trip oracle over run sequences + parser trace hook"),
 "C15": dict(cat="exploration", ref="5 C15",
   text="Full product of extension lists x source_dir forms x config path forms x invocation directories over a hostile layout (look-alike extensions, directory named *.rs, symlinks in/out, dangling links, trap src/ dirs relative to the cwd); whole-sandbox snapshot diff, files opened (shim), reported paths and lock location are compared with an independent scope model.",
   note="Scope model from the property text; shim log for files read.",
   tech="runtime monitoring: snapshot diff + LD_PRELOAD open() monitor against a scope model"),
 "C16": dict(cat="exploration", ref="5 C16",
   text="The full 576-point product of use_cache x structured x extensions x lock state x mode x tree plus 16 error exits is executed; exit status, snapshot diff, lock before/after, lock opened or not (shim), IDs chosen and token style are compared with a table derived from the user guide. Exhaustive for that product.",
   note="Expectation table from docs/source/configuration.rst and the property text.",
   tech="runtime monitoring: exhaustive configuration product + table oracle over observed effects"),
 "C11": dict(cat="exploration", ref="5 C11",
   text="Every decoy class (comments incl. EOF without newline, unconfigured/prefix/suffix/other-path macros, non-literal invocations, macro text in escaped strings) x position x macro set x style is placed among real statements and run through the real binary in both modes; no reported location, inserted token or parser entry may fall inside a decoy's byte range.",
   note="Decoy byte ranges by construction; hook trace as extra observation; raw strings are not decoys.",
   tech="runtime monitoring: generated decoy workloads + byte-range oracle over check report, edit decomposition, hook trace"),
 "C12": dict(cat="exploration", ref="5 C12",
   text="Bounded-exhaustive: all strings of length <=3 (quick) / <=5 (thorough) over a 12-symbol alphabet at the message start and after '[ref: ', all single-character edits of valid tokens and numeric boundaries, executed through the real binary and compared with an independent model of the rule in check report, edit result and the number the parser read (hook). Exhaustive only for the stated finite space.",
   note="Independent regex model (DESIGN 4.4); hook trace for the value read; statements near the top of the ID range live in files of their own.",
   tech="runtime monitoring: bounded-exhaustive input enumeration + reference-model oracle + parser trace hook"),
 "C13": dict(cat="exploration", ref="5 C13",
   text="Structured-mode statements (pairwise-covering feature rows) with no ref / valid ref / unusable ref at every key-value position are executed in both modes; placement region, separator, recognition (hook) and untouched-ness are asserted per statement.",
   note="Generator ground truth; ambiguous literals (out of range, hex, suffixed, non-simple values) get only the safety assertions.",
   tech="runtime monitoring: generated workloads + ground-truth oracle + parser trace hook"),
 "C14": dict(cat="exploration", ref="5 C14",
   text="Directive placements (kind/near-miss, comment style, case, padding, blank lines, intervening lines, several statements per line, multi-line, multi-byte context, both styles; pairwise/3-way covering) each with guard statements before and after are executed in both modes and judged against an independent model of the directive rule.",
   note="Model of the rule as stated in the property; trailing-comment directives on code lines, doc comments and multi-line block comments are not generated (don't-care).",
   tech="runtime monitoring: generated placements + reference-model oracle over check report and edit decomposition"),
 "C10": dict(cat="exploration", ref="5 C10",
   text="Generated canonical statements (measured pairwise/3-way feature coverage) are run through the real binary in both modes and styles; each must be reported at and edited at the ground-truth position. Runtime observation of executions, not a proof over all statements.",
   note="Generator ground truth for the canonical statement space (DESIGN 4.3); pinned 'Missing reference in file' phrase; known finding D13 listed in KNOWN_FINDINGS.txt.",
   tech="runtime monitoring: generated workloads + ground-truth oracle over check report and edit decomposition"),
}
# workloads added after the seeded-change rounds 4-7 (DESIGN 13.9-13.11), appended to the level text of each check
ADDED = {
 "C01": "Also: ambient state (permission bits, mtimes, stale Breadlog.lock.tmp, a lock in the directory above, editor droppings), files spelled with layout between macro name and `!` (when the tree under test recognises them on a probe), modifier-carrying ref keys, and runs in which one file fails (errno at every scratch-file operation) while others are rewritten.",
 "C02": "Also: short writes, histories starting within 14 IDs of u32::MAX, a symlinked or write-protected lock, timestamp changes (configuration newer than the lock), EPIPE on a log line (panic that unwinds).",
 "C03": "Also: 4-9 MiB files, copied runs of exactly k x 2^n bytes, references not followed by a space, read-side faults (read fails / short / short then fails), statements nested in another statement's value.",
 "C04": "Also: eight command-line spellings of check mode (repeated flag, directory given to -c), stale lock scratch copies, a valid lock behind the code, old scratch files in TMPDIR, a missing configuration file.",
 "C05": "Also: totals of exactly 256/512/1024 missing references, several statements per source line, lines and columns beyond 16 bits, redundant configuration lists, environment variables of developer shells (RUST_LOG, NO_COLOR, TERM, LANG, TZ), write-protected sources.",
 "C06": "Also: argument forms of newer log releases, 120-2500 files under RLIMIT_NOFILE=40, fully referenced trees with absent/torn lock, symlinked sources, real-world first lines (@generated, DO NOT EDIT ...), ambient state.",
 "C07": "Also: partial write failures, two-run histories over one TMPDIR, read-side faults, a stalled last write (killed after its rename / failing after the stall), EPIPE on every log line, a stop request followed by a kill at every later operation, two overlapping runs sharing TMPDIR, sibling files with scratch-like names.",
 "C08": "Also: concurrent save of the file in hand, every operation on a scratch file (fchmod, ftruncate ...), read-only sources, unusable references, TMPDIR set but empty, faults on lock operations, fault followed by a stop signal.",
 "C09": "Also: general log!(Level, ..) statements with `log` configured, layout before `!`, CRLF programs, 30% of the edit runs under I/O perturbation (all reads and writes short; one partial write failure).",
 "C10": "Also: files spelled with layout before `!` throughout, statements nested in another macro's arguments, literals ending in an escaped backslash, character-literal and inner-string-literal values, a string literal right after the statement.",
 "C11": "Also: non-ASCII identifier decoys, multi-paragraph block comments in ~300 KB files, partial forms of multi-segment module paths, comments after lifetimes / loop labels, non-literal forms with key-values.",
 "C12": "Also: whitespace-class substitutions of the token's space, every literal two or three times in one file, multi-line literals, no-kvp directive in string mode.",
 "C13": "Also: expressions that begin with digits, out-of-range literals must not be read as another number, unusable references must be reported by --check also in files where nothing is missing, character-literal values.",
 "C14": "Also: statement spelled over two lines, attribute and assorted code lines in between, Unicode padding, 40 blank lines / 300-space lines, directive trailing code on the line above, twin files (same skeleton, directive words spoilt) incl. one-statement pairs.",
 "C15": "Also: in-scope files 16-120 levels deep, permission bits, configuration reached through a symbolic link, pipes and sockets named like sources, a mount point inside the tree (private mount namespace), a missing source directory with look-alikes where the command runs, dotted directory names, non-UTF-8 names (open known finding D21).",
 "C16": "Also: stale lock scratch copies, symlinked / write-protected / non-text locks, ~35 invalid configuration shapes, every error case also run from a directory full of look-alikes.",
 "C17": "Also: every odd construct repeated 25-400 times, 150 000 nesting levels, empty comments above invocations, coordinates beyond 16 bits, OS-level open errors, special files named like sources.",
 "C18": "Also: double signals incl. stdin on a terminal, unreadable files in complete / incomplete trees, a 300 KB source, a failing first file plus a stop request while the complete rest is examined.",
}
for _k, _v in ADDED.items():
    CHECKS[_k]["text"] = CHECKS[_k]["text"] + " " + _v

ADDED2 = {
 "C02": "Rounds 8-10: bulk adds of 12-300 statements, merges that bring in statements referenced at or just above the lock value.",
 "C03": "Rounds 8-10: where a token may sit (position clauses), placeholder prefixes, equally long files sharing head and tail.",
 "C05": "Rounds 8-10: trees without statements, non-ASCII file names, a character above U+FFFF before a statement, byte-identical copies of files.",
 "C06": "Rounds 8-10: statement-less trees, locks that are behind the code.",
 "C07": "Rounds 8-10: stop signals at every scratch operation, crash points with TMPDIR unset (private /tmp in a mount namespace).",
 "C08": "Rounds 8-10: renames failing for ever with EBUSY/EINTR/EAGAIN/ETIMEDOUT, the scratch copy removed by another process just before its rename.",
 "C09": "Rounds 8-10: code before the statement on its line, tight separators, the program as one file of a larger tree with other modules and unloadable files (creation order shuffled).",
 "C10": "Rounds 8-10: foreign-module uses of configured names first in the file, macro sets whose names are suffixes / prefixes of each other.",
 "C12": "Rounds 8-10: bracket tags after a token, non-token insertions are violations, a third of the files also with the cache on and a lock behind the code.",
 "C13": "Rounds 8-10: comparison / shift operators and spaced modifiers in values, the edited file is checked again (what was added reads back as ref = N).",
 "C14": "Rounds 8-10: code before the subject on its line, ignored statements with huge references, multi-line subjects closing right after their last argument with a statement on the closing line, quote characters in code before a trailing directive; open known finding D24 (string literals holding `//` or directive text on the line above).",
 "C15": "Rounds 8-10: names differing only in case, a directory that cannot be listed (opendir fails), directories other tools skip next to their markers (target/ beside Cargo.toml, node_modules, .git, git-ignored, CACHEDIR.TAG, virtualenv).",
 "C16": "Rounds 8-10: duplicate key, valid locks behind / before a 260 B - 70 KiB comment block, CRLF locks.",
 "C17": "Rounds 8-10: one-character-off macro names, trees of unreadable files only; a process blocked on itself (no runnable thread, no CPU tick while watched) is a hang decided on process state, reduced to a small set of files.",
 "C18": "Rounds 8-10: the end-of-run exemption requires that no further source file is opened; trees with statement-less and empty files.",
}
for _k, _v in ADDED2.items():
    CHECKS[_k]["text"] = CHECKS[_k]["text"] + " " + _v

def main():
    checks = []
    for pid in ALL:
        if pid not in CHECKS: continue
        c = CHECKS[pid]
        checks.append({
            "property_id": pid,
            "quick_cmd": "./check %s --tier quick" % pid,
            "thorough_cmd": "./check %s --tier thorough" % pid,
            "evidence_file": "/verif/evidence/%s.json" % pid,
            "replay_cmd_template": "./check %s --replay {path}" % pid,
            "engine": "vf",
            "level_claimed": {"category": c["cat"], "text": c["text"], "design_ref": c["ref"]},
            "level_note": c["note"],
            "technique": c["tech"],
        })
    na = [{"property_id": p, "reason": "check not built yet in this session (planned in DESIGN.md section 5); not claimed until it runs"} for p in ALL if p not in CHECKS]
    m = {
        "version": 1,
        "setup_cmd": "./setup.sh",
        "hooks": {
            "guard": "cargo feature verif-hooks",
            "enable": "cargo build --release --offline --features verif-hooks --manifest-path /repo/Cargo.toml --target-dir /verif/.build/target",
            "baseline_off_cmd": "cd /repo && (cargo nextest run --workspace --no-fail-fast --test-threads 8 --offline || cargo test --workspace --no-fail-fast --offline)",
            "source_commits": ["a8734e1"],
            "add_only": True,
        },
        "engines": [{"name": "vf", "path": "/verif/vf", "serves_properties": sorted(CHECKS),
                     "kind_free_text": "python3 (stdlib) harness executing the real breadlog binary under monitors: filesystem snapshots, LD_PRELOAD op monitor/fault injector (shim/fsshim.c), strace, parser-view trace hook, process status"}],
        "checks": checks,
        "not_applicable": na,
        "notes": "Runtime monitoring only; see DESIGN.md. Known findings: KNOWN_FINDINGS.txt.",
    }
    json.dump(m, open(os.path.join(V, "MANIFEST.json"), "w"), indent=1)
    print("wrote MANIFEST.json with", len(checks), "checks;", len(na), "not claimed")
main()
