#!/bin/sh
# Copies a verified seeded change into /verif/seeded/<name>/  usage: tools/keep_mutant.sh /tmp/mut-CXX <name>
W=$1; N=$2
D=/verif/seeded/$N
mkdir -p $D
cp $W/MUTANT/patch.diff $D/patch.diff
cp -r $W/MUTANT/. $D/demo/ 2>/dev/null || { mkdir -p $D/demo; cp $W/MUTANT/* $D/demo/; }
rm -f $D/demo/patch.diff
ls $D $D/demo
