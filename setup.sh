#!/bin/sh
# Offline setup: build the shim and warm the hooked release build of /repo.
set -e
cd "$(dirname "$0")"
mkdir -p .build evidence
gcc -O2 -fPIC -shared -w -o .build/fsshim.so shim/fsshim.c -ldl
CARGO_NET_OFFLINE=true cargo build --release --offline --features verif-hooks --manifest-path /repo/Cargo.toml --target-dir .build/target --bin breadlog \
  || CARGO_NET_OFFLINE=true cargo build --release --offline --manifest-path /repo/Cargo.toml --target-dir .build/target --bin breadlog
# log rlib (feature kv) for the C09 programs
mkdir -p .build/c09
LOGSRC=$(ls -d $HOME/.cargo/registry/src/*/log-0.4.22/src/lib.rs 2>/dev/null | head -1)
if [ -n "$LOGSRC" ]; then
  rustc --crate-type rlib --crate-name log --edition 2021 --cfg 'feature="kv"' --cfg 'feature="std"' -O --cap-lints allow "$LOGSRC" -o .build/c09/liblog.rlib
fi
echo setup ok
