#!/bin/sh
# Offline setup: build the shim and warm the hooked release build of /repo.
set -e
cd "$(dirname "$0")"
mkdir -p .build evidence
gcc -O2 -fPIC -shared -w -o .build/fsshim.so shim/fsshim.c -ldl
CARGO_NET_OFFLINE=true cargo build --release --offline --features verif-hooks --manifest-path /repo/Cargo.toml --target-dir .build/target --bin breadlog \
  || CARGO_NET_OFFLINE=true cargo build --release --offline --manifest-path /repo/Cargo.toml --target-dir .build/target --bin breadlog
echo setup ok
