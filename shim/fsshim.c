/*
 * fsshim.so - LD_PRELOAD operation monitor and fault injector (Channel B of DESIGN.md).
 *
 * Every interposed libc call that touches a path below $VF_SHIM_ROOT
 *   1. takes the next value n of one global atomic operation counter,
 *   2. appends "B n kind flags bytes tid path [-> path2]" to $VF_SHIM_LOG,
 *   3. applies the first matching rule of $VF_SHIM_RULES (appending "F n action"),
 *   4. performs the call and appends "A n ret errno".
 *
 * Rules:  rule(;rule)*        rule := field(,field)*
 *   n=<k>        exactly operation k          from=<k>   every operation >= k
 *   kind=<name>  only this kind               path~=<s>  path or path2 contains s
 *   dst~=<s>     path2 (rename destination) contains s
 *   wr=1         only opens that can write
 *   act=kill-before | kill-after | errno:<E> | slowerr:<E> (hang 6.5 s, then fail) | short | sig:<N> (raise, synchronous) | psig:<N> (kill(getpid())) |
 *       sigafter:<N> | delay:<ms>
 * Only paths below the root count; the log itself lives elsewhere.
 */
#define _GNU_SOURCE
#include <dlfcn.h>
#include <dirent.h>
#include <errno.h>
#include <fcntl.h>
#include <signal.h>
#include <stdarg.h>
#include <stdatomic.h>
#include <stdio.h>
#include <stdlib.h>
#include <string.h>
#include <sys/stat.h>
#include <sys/syscall.h>
#include <sys/types.h>
#include <sys/uio.h>
#include <time.h>
#include <unistd.h>

static atomic_long g_n = 0;
static int g_log = -1;
static char g_root[4096];
static size_t g_rootlen = 0;
static char g_root2[4096];      /* optional second monitored tree ($VF_SHIM_ROOT2), e.g. a TMPDIR on another filesystem */
static size_t g_root2len = 0;
static int g_init = 0;
static int g_reads = 0;         /* $VF_SHIM_READS: read(2)/pread(2) on files below the root are operations too (kind "read") */
static int g_stdio = 0;         /* $VF_SHIM_STDIO: writes to fd 1/2 are operation boundaries too (kind "stdio") */

#define MAXRULES 32
struct rule {
    long n, from;
    char kind[24];
    char path[256];
    char dst[256];
    int wr;
    char act[16];
    long arg;
};
static struct rule g_rules[MAXRULES];
static int g_nrules = 0;

static long raw_write(int fd, const void *b, size_t n) { return syscall(SYS_write, fd, b, n); }

static void parse_rules(const char *s)
{
    char *dup = strdup(s), *sv1 = NULL;
    for (char *r = strtok_r(dup, ";", &sv1); r && g_nrules < MAXRULES; r = strtok_r(NULL, ";", &sv1)) {
        struct rule *R = &g_rules[g_nrules];
        memset(R, 0, sizeof *R);
        R->n = -1; R->from = -1;
        char *sv2 = NULL;
        for (char *f = strtok_r(r, ",", &sv2); f; f = strtok_r(NULL, ",", &sv2)) {
            if (!strncmp(f, "n=", 2)) R->n = atol(f + 2);
            else if (!strncmp(f, "from=", 5)) R->from = atol(f + 5);
            else if (!strncmp(f, "kind=", 5)) snprintf(R->kind, sizeof R->kind, "%s", f + 5);
            else if (!strncmp(f, "path~=", 6)) snprintf(R->path, sizeof R->path, "%s", f + 6);
            else if (!strncmp(f, "dst~=", 5)) snprintf(R->dst, sizeof R->dst, "%s", f + 5);
            else if (!strncmp(f, "wr=", 3)) R->wr = atoi(f + 3);
            else if (!strncmp(f, "act=", 4)) {
                char *c = strchr(f + 4, ':');
                if (c) { *c = 0; R->arg = atol(c + 1); }
                snprintf(R->act, sizeof R->act, "%s", f + 4);
            }
        }
        if (R->act[0]) g_nrules++;
    }
    free(dup);
}

static void init(void)
{
    if (g_init) return;
    g_init = 1;
    const char *root = getenv("VF_SHIM_ROOT");
    const char *log = getenv("VF_SHIM_LOG");
    const char *rules = getenv("VF_SHIM_RULES");
    if (root) { snprintf(g_root, sizeof g_root, "%s", root); g_rootlen = strlen(g_root); }
    const char *root2 = getenv("VF_SHIM_ROOT2");
    if (root2) { snprintf(g_root2, sizeof g_root2, "%s", root2); g_root2len = strlen(g_root2); }
    if (log) g_log = syscall(SYS_open, log, O_WRONLY | O_CREAT | O_APPEND | O_CLOEXEC, 0644);
    if (rules) parse_rules(rules);
    if (getenv("VF_SHIM_STDIO")) g_stdio = 1;
    if (getenv("VF_SHIM_READS")) g_reads = 1;
}
__attribute__((constructor)) static void ctor(void) { init(); }

static int in_root(const char *p)
{
    if (!g_rootlen || !p) return 0;
    if (!strncmp(p, g_root, g_rootlen) && (p[g_rootlen] == '/' || p[g_rootlen] == 0)) return 1;
    if (g_root2len && !strncmp(p, g_root2, g_root2len) && (p[g_root2len] == '/' || p[g_root2len] == 0)) return 1;
    return 0;
}

/* make a path absolute (no symlink resolution: we want the name used) */
static const char *absolutise(int dirfd, const char *p, char *buf, size_t n)
{
    if (!p) return NULL;
    if (p[0] == '/') return p;
    char base[4096];
    if (dirfd == AT_FDCWD) {
        if (!getcwd(base, sizeof base)) return p;
    } else {
        char link[64];
        snprintf(link, sizeof link, "/proc/self/fd/%d", dirfd);
        ssize_t l = readlink(link, base, sizeof base - 1);
        if (l < 0) return p;
        base[l] = 0;
    }
    snprintf(buf, n, "%s/%s", base, p);
    return buf;
}

static const char *fd_path(int fd, char *buf, size_t n)
{
    char link[64];
    snprintf(link, sizeof link, "/proc/self/fd/%d", fd);
    ssize_t l = readlink(link, buf, n - 1);
    if (l < 0) return NULL;
    buf[l] = 0;
    /* a file renamed-over or unlinked shows " (deleted)" */
    return buf;
}

struct op { long n; const struct rule *r; };

static void logf_(const char *fmt, ...)
{
    if (g_log < 0) return;
    char b[9000];
    va_list ap; va_start(ap, fmt);
    int l = vsnprintf(b, sizeof b, fmt, ap);
    va_end(ap);
    if (l > (int)sizeof b - 1) l = sizeof b - 1;
    raw_write(g_log, b, l);
}

static const struct rule *match(long n, const char *kind, const char *p1, const char *p2, int writable)
{
    for (int i = 0; i < g_nrules; i++) {
        const struct rule *R = &g_rules[i];
        if (R->n >= 0 && R->n != n) continue;
        if (R->from >= 0 && n < R->from) continue;
        if (R->kind[0] && strcmp(R->kind, kind)) continue;
        if (R->path[0] && !((p1 && strstr(p1, R->path)) || (p2 && strstr(p2, R->path)))) continue;
        if (R->dst[0] && !(p2 && strstr(p2, R->dst))) continue;
        if (R->wr && !writable) continue;
        return R;
    }
    return NULL;
}

/* Begin an operation. Returns its number; *inj_errno != 0 => do not perform, fail with it; *shortw => halve. */
static struct op begin(const char *kind, const char *p1, const char *p2, long flags, long bytes, int writable,
                       int *inj_errno, int *shortw)
{
    struct op o;
    o.n = atomic_fetch_add(&g_n, 1) + 1;
    logf_("B %ld %s %ld %ld %ld %s%s%s\n", o.n, kind, flags, bytes, (long)syscall(SYS_gettid),
          p1 ? p1 : "-", p2 ? " -> " : "", p2 ? p2 : "");
    o.r = match(o.n, kind, p1, p2, writable);
    *inj_errno = 0; *shortw = 0;
    if (o.r) {
        const char *a = o.r->act;
        if (!strcmp(a, "kill-before")) { logf_("F %ld kill-before\n", o.n); kill(getpid(), SIGKILL); for (;;) pause(); }
        else if (!strcmp(a, "errno")) { logf_("F %ld errno:%ld\n", o.n, o.r->arg); *inj_errno = (int)o.r->arg; }
        else if (!strcmp(a, "short")) { if (bytes > 1) { logf_("F %ld short\n", o.n); *shortw = 1; } }
        /* raise() = thread-directed: the handler has run (or the default action has been taken) when it returns, so the
         * signal has arrived strictly before operation n is performed. A process-directed kill() may be handled by another
         * thread a few instructions later, which would blur "before operation n". */
        else if (!strcmp(a, "sig")) { logf_("F %ld sig:%ld\n", o.n, o.r->arg); raise((int)o.r->arg);
            struct timespec ts = { 0, 3000000L }; nanosleep(&ts, NULL); }
        else if (!strcmp(a, "psig")) { logf_("F %ld psig:%ld\n", o.n, o.r->arg); kill(getpid(), (int)o.r->arg); }
        /* the operation hangs for 6.5 s and then fails with the given errno (a soft-mounted NFS timing out) */
        else if (!strcmp(a, "slowerr")) { logf_("F %ld slowerr:%ld\n", o.n, o.r->arg);
            struct timespec ts = { 6, 500000000L }; nanosleep(&ts, NULL); *inj_errno = (int)o.r->arg; }
        else if (!strcmp(a, "delay")) { logf_("F %ld delay:%ld\n", o.n, o.r->arg);
            struct timespec ts = { o.r->arg / 1000, (o.r->arg % 1000) * 1000000L }; nanosleep(&ts, NULL); }
    }
    return o;
}

static void end(struct op o, long ret, int err)
{
    logf_("A %ld %ld %d\n", o.n, ret, ret < 0 ? err : 0);
    if (o.r) {
        if (!strcmp(o.r->act, "kill-after")) { logf_("F %ld kill-after\n", o.n); kill(getpid(), SIGKILL); for (;;) pause(); }
        else if (!strcmp(o.r->act, "sigafter")) { logf_("F %ld sigafter:%ld\n", o.n, o.r->arg); raise((int)o.r->arg); }
    }
}

#define REAL(name) static __typeof__(name) *real_##name; if (!real_##name) real_##name = dlsym(RTLD_NEXT, #name)

/* ---------- open family ---------- */
static int open_common(const char *kind, int dirfd, const char *path, int flags, mode_t mode,
                       int (*doit)(int, const char *, int, mode_t))
{
    init();
    char buf[8192];
    const char *ap = absolutise(dirfd, path, buf, sizeof buf);
    if (!in_root(ap)) return doit(dirfd, path, flags, mode);
    int writable = (flags & (O_WRONLY | O_RDWR | O_CREAT | O_TRUNC | O_APPEND)) != 0;
    int ie, sw;
    struct op o = begin(writable ? "openw" : ((flags & O_DIRECTORY) ? "opendir" : "openr"), ap, NULL, flags, 0, writable, &ie, &sw);
    (void)kind;
    long ret; int err = 0;
    if (ie) { ret = -1; err = ie; }
    else { ret = doit(dirfd, path, flags, mode); err = errno; }
    end(o, ret, err);
    errno = err;
    return (int)ret;
}

static int do_openat(int dirfd, const char *p, int f, mode_t m)
{
    return (int)syscall(SYS_openat, dirfd, p, f | O_LARGEFILE, m);
}

#define GETMODE mode_t mode = 0; if (flags & (O_CREAT | __O_TMPFILE)) { va_list ap; va_start(ap, flags); mode = va_arg(ap, mode_t); va_end(ap); }

int open(const char *path, int flags, ...) { GETMODE; return open_common("open", AT_FDCWD, path, flags, mode, do_openat); }
int open64(const char *path, int flags, ...) { GETMODE; return open_common("open", AT_FDCWD, path, flags, mode, do_openat); }
int openat(int dirfd, const char *path, int flags, ...) { GETMODE; return open_common("open", dirfd, path, flags, mode, do_openat); }
int openat64(int dirfd, const char *path, int flags, ...) { GETMODE; return open_common("open", dirfd, path, flags, mode, do_openat); }
int creat(const char *path, mode_t mode) { return open_common("open", AT_FDCWD, path, O_CREAT | O_WRONLY | O_TRUNC, mode, do_openat); }
int creat64(const char *path, mode_t mode) { return open_common("open", AT_FDCWD, path, O_CREAT | O_WRONLY | O_TRUNC, mode, do_openat); }

DIR *opendir(const char *name)
{
    init();
    REAL(opendir);
    char buf[8192];
    const char *ap = absolutise(AT_FDCWD, name, buf, sizeof buf);
    if (!in_root(ap)) return real_opendir(name);
    int ie, sw;
    struct op o = begin("opendir", ap, NULL, 0, 0, 0, &ie, &sw);
    DIR *d = NULL; int err = 0;
    if (ie) err = ie; else { d = real_opendir(name); err = errno; }
    end(o, d ? 0 : -1, err);
    errno = err;
    return d;
}

FILE *fopen(const char *path, const char *mode)
{
    init();
    REAL(fopen);
    char buf[8192];
    const char *ap = absolutise(AT_FDCWD, path, buf, sizeof buf);
    if (!in_root(ap)) return real_fopen(path, mode);
    int writable = strpbrk(mode, "wa+") != NULL;
    int ie, sw;
    struct op o = begin(writable ? "openw" : "openr", ap, NULL, 0, 0, writable, &ie, &sw);
    FILE *f = NULL; int err = 0;
    if (ie) err = ie; else { f = real_fopen(path, mode); err = errno; }
    end(o, f ? 0 : -1, err);
    errno = err;
    return f;
}
FILE *fopen64(const char *path, const char *mode) { return fopen(path, mode); }

/* ---------- fd-level writes ---------- */
ssize_t write(int fd, const void *b, size_t n)
{
    init();
    if (g_stdio && (fd == 1 || fd == 2) && g_rootlen) {
        int ie, sw;
        /* the tail of the line (after the timestamp / level / module prefix) is recorded so that the harness can tell
         * which log line an operation number refers to */
        char snip[121];
        size_t off = n > 120 ? n - 120 : 0, m = 0;
        for (size_t i = off; i < n && m < sizeof snip - 1; i++) {
            char c = ((const char *)b)[i];
            snip[m++] = (c == '\n' || c == '\r' || c == '>' ) ? ' ' : c;
        }
        snip[m] = 0;
        struct op o = begin("stdio", fd == 1 ? "<stdout>" : "<stderr>", snip, fd, (long)n, 0, &ie, &sw);
        long r; int e;
        /* an injected errno on a log line (EPIPE: the reader of `breadlog | head` has gone away) makes println! panic:
         * an abnormal end that unwinds (destructors run), unlike a kill */
        if (ie) { r = -1; e = ie; }
        else { r = raw_write(fd, b, n); e = errno; }
        end(o, r, e);
        errno = e;
        return r;
    }
    char pb[4096];
    const char *p = g_rootlen ? fd_path(fd, pb, sizeof pb) : NULL;
    if (!in_root(p)) return raw_write(fd, b, n);
    int ie, sw;
    struct op o = begin("write", p, NULL, fd, (long)n, 1, &ie, &sw);
    long ret; int err = 0;
    if (ie) { ret = -1; err = ie; }
    else { ret = raw_write(fd, b, sw ? n / 2 : n); err = errno; }
    end(o, ret, err);
    errno = err;
    return ret;
}

ssize_t writev(int fd, const struct iovec *iov, int cnt)
{
    init();
    char pb[4096];
    const char *p = g_rootlen ? fd_path(fd, pb, sizeof pb) : NULL;
    if (!in_root(p)) return syscall(SYS_writev, fd, iov, cnt);
    long total = 0;
    for (int i = 0; i < cnt; i++) total += iov[i].iov_len;
    int ie, sw;
    struct op o = begin("write", p, NULL, fd, total, 1, &ie, &sw);
    long ret; int err = 0;
    if (ie) { ret = -1; err = ie; }
    else if (sw && cnt > 0) { ret = raw_write(fd, iov[0].iov_base, iov[0].iov_len / 2 ? iov[0].iov_len / 2 : iov[0].iov_len); err = errno; }
    else { ret = syscall(SYS_writev, fd, iov, cnt); err = errno; }
    end(o, ret, err);
    errno = err;
    return ret;
}

/* ---------- fd-level reads (opt-in): errno injection = the read fails, "short" = it returns at most half of what was asked
 * (legal kernel behaviour: FUSE / NFS transfer sizes, signals) ---------- */
ssize_t read(int fd, void *b, size_t n)
{
    init();
    if (!g_reads || !g_rootlen) return syscall(SYS_read, fd, b, n);
    char pb[4096];
    const char *p = fd_path(fd, pb, sizeof pb);
    if (!in_root(p)) return syscall(SYS_read, fd, b, n);
    int ie, sw;
    struct op o = begin("read", p, NULL, fd, (long)n, 0, &ie, &sw);
    long ret; int err = 0;
    if (ie) { ret = -1; err = ie; }
    else { ret = syscall(SYS_read, fd, b, (sw && n > 1) ? n / 2 : n); err = errno; }
    end(o, ret, err);
    errno = err;
    return ret;
}

ssize_t pread64(int fd, void *b, size_t n, off64_t off)
{
    init();
    if (!g_reads || !g_rootlen) return syscall(SYS_pread64, fd, b, n, off);
    char pb[4096];
    const char *p = fd_path(fd, pb, sizeof pb);
    if (!in_root(p)) return syscall(SYS_pread64, fd, b, n, off);
    int ie, sw;
    struct op o = begin("read", p, NULL, fd, (long)n, 0, &ie, &sw);
    long ret; int err = 0;
    if (ie) { ret = -1; err = ie; }
    else { ret = syscall(SYS_pread64, fd, b, (sw && n > 1) ? n / 2 : n, off); err = errno; }
    end(o, ret, err);
    errno = err;
    return ret;
}
ssize_t pread(int fd, void *b, size_t n, off_t off) { return pread64(fd, b, n, off); }

ssize_t pwrite64(int fd, const void *b, size_t n, off64_t off)
{
    init();
    char pb[4096];
    const char *p = g_rootlen ? fd_path(fd, pb, sizeof pb) : NULL;
    if (!in_root(p)) return syscall(SYS_pwrite64, fd, b, n, off);
    int ie, sw;
    struct op o = begin("pwrite", p, NULL, fd, (long)n, 1, &ie, &sw);
    long ret; int err = 0;
    if (ie) { ret = -1; err = ie; }
    else { ret = syscall(SYS_pwrite64, fd, b, sw ? n / 2 : n, off); err = errno; }
    end(o, ret, err);
    errno = err;
    return ret;
}
ssize_t pwrite(int fd, const void *b, size_t n, off_t off) { return pwrite64(fd, b, n, off); }

#define FD_OP(NAME, KIND, SYSCALL_EXPR, BYTES)                                   \
    {                                                                            \
        init();                                                                  \
        char pb[4096];                                                           \
        const char *p = g_rootlen ? fd_path(fd, pb, sizeof pb) : NULL;           \
        if (!in_root(p)) return SYSCALL_EXPR;                                    \
        int ie, sw;                                                              \
        struct op o = begin(KIND, p, NULL, fd, BYTES, 1, &ie, &sw);              \
        long ret; int err = 0;                                                   \
        if (ie) { ret = -1; err = ie; } else { ret = SYSCALL_EXPR; err = errno; }\
        end(o, ret, err);                                                        \
        errno = err;                                                             \
        return ret;                                                              \
    }

int ftruncate(int fd, off_t len) FD_OP(ftruncate, "ftruncate", syscall(SYS_ftruncate, fd, len), (long)len)
int ftruncate64(int fd, off64_t len) FD_OP(ftruncate64, "ftruncate", syscall(SYS_ftruncate, fd, len), (long)len)
int fsync(int fd) FD_OP(fsync, "fsync", syscall(SYS_fsync, fd), 0)
int fdatasync(int fd) FD_OP(fdatasync, "fsync", syscall(SYS_fdatasync, fd), 0)
int fchmod(int fd, mode_t m) FD_OP(fchmod, "chmod", syscall(SYS_fchmod, fd, m), (long)m)
int fchown(int fd, uid_t u, gid_t g) FD_OP(fchown, "chown", syscall(SYS_fchown, fd, u, g), 0)
int futimens(int fd, const struct timespec t[2]) FD_OP(futimens, "utime", syscall(SYS_utimensat, fd, NULL, t, 0), 0)
int close(int fd) FD_OP(close, "close", syscall(SYS_close, fd), 0)
int fallocate(int fd, int mode, off_t off, off_t len) FD_OP(fallocate, "fallocate", syscall(SYS_fallocate, fd, mode, off, len), (long)len)
int posix_fallocate(int fd, off_t off, off_t len) FD_OP(posix_fallocate, "fallocate", syscall(SYS_fallocate, fd, 0, off, len), (long)len)

ssize_t copy_file_range(int fdin, off64_t *oi, int fd, off64_t *oo, size_t len, unsigned fl)
    FD_OP(copy_file_range, "copyrange", syscall(SYS_copy_file_range, fdin, oi, fd, oo, len, fl), (long)len)
ssize_t sendfile64(int fd, int in, off64_t *off, size_t cnt) FD_OP(sendfile64, "sendfile", syscall(SYS_sendfile, fd, in, off, cnt), (long)cnt)
ssize_t sendfile(int fd, int in, off_t *off, size_t cnt) FD_OP(sendfile, "sendfile", syscall(SYS_sendfile, fd, in, off, cnt), (long)cnt)

/* ---------- path-level operations ---------- */
#define PATH2_OP(KIND, D1, P1, D2, P2, SYSCALL_EXPR)                              \
    {                                                                            \
        init();                                                                  \
        char b1[8192], b2[8192];                                                 \
        const char *a1 = absolutise(D1, P1, b1, sizeof b1);                      \
        const char *a2 = (P2) ? absolutise(D2, P2, b2, sizeof b2) : NULL;        \
        if (!in_root(a1) && !in_root(a2)) return SYSCALL_EXPR;                   \
        int ie, sw;                                                              \
        struct op o = begin(KIND, a1, a2, 0, 0, 1, &ie, &sw);                    \
        long ret; int err = 0;                                                   \
        if (ie) { ret = -1; err = ie; } else { ret = SYSCALL_EXPR; err = errno; }\
        end(o, ret, err);                                                        \
        errno = err;                                                             \
        return ret;                                                              \
    }

int rename(const char *a, const char *b) PATH2_OP("rename", AT_FDCWD, a, AT_FDCWD, b, syscall(SYS_rename, a, b))
int renameat(int da, const char *a, int db, const char *b) PATH2_OP("rename", da, a, db, b, syscall(SYS_renameat, da, a, db, b))
int renameat2(int da, const char *a, int db, const char *b, unsigned f) PATH2_OP("rename", da, a, db, b, syscall(SYS_renameat2, da, a, db, b, f))
int link(const char *a, const char *b) PATH2_OP("link", AT_FDCWD, a, AT_FDCWD, b, syscall(SYS_link, a, b))
int linkat(int da, const char *a, int db, const char *b, int f) PATH2_OP("link", da, a, db, b, syscall(SYS_linkat, da, a, db, b, f))
int symlink(const char *a, const char *b) PATH2_OP("symlink", AT_FDCWD, b, AT_FDCWD, (const char *)NULL, syscall(SYS_symlink, a, b))
int symlinkat(const char *a, int db, const char *b) PATH2_OP("symlink", db, b, AT_FDCWD, (const char *)NULL, syscall(SYS_symlinkat, a, db, b))
int unlink(const char *a) PATH2_OP("unlink", AT_FDCWD, a, AT_FDCWD, (const char *)NULL, syscall(SYS_unlink, a))
int unlinkat(int d, const char *a, int f) PATH2_OP("unlink", d, a, AT_FDCWD, (const char *)NULL, syscall(SYS_unlinkat, d, a, f))
int rmdir(const char *a) PATH2_OP("rmdir", AT_FDCWD, a, AT_FDCWD, (const char *)NULL, syscall(SYS_rmdir, a))
int mkdir(const char *a, mode_t m) PATH2_OP("mkdir", AT_FDCWD, a, AT_FDCWD, (const char *)NULL, syscall(SYS_mkdir, a, m))
int mkdirat(int d, const char *a, mode_t m) PATH2_OP("mkdir", d, a, AT_FDCWD, (const char *)NULL, syscall(SYS_mkdirat, d, a, m))
int truncate(const char *a, off_t l) PATH2_OP("truncate", AT_FDCWD, a, AT_FDCWD, (const char *)NULL, syscall(SYS_truncate, a, l))
int truncate64(const char *a, off64_t l) PATH2_OP("truncate", AT_FDCWD, a, AT_FDCWD, (const char *)NULL, syscall(SYS_truncate, a, l))
int chmod(const char *a, mode_t m) PATH2_OP("chmod", AT_FDCWD, a, AT_FDCWD, (const char *)NULL, syscall(SYS_chmod, a, m))
int fchmodat(int d, const char *a, mode_t m, int f) PATH2_OP("chmod", d, a, AT_FDCWD, (const char *)NULL, syscall(SYS_fchmodat, d, a, m, f))
int chown(const char *a, uid_t u, gid_t g) PATH2_OP("chown", AT_FDCWD, a, AT_FDCWD, (const char *)NULL, syscall(SYS_chown, a, u, g))
int lchown(const char *a, uid_t u, gid_t g) PATH2_OP("chown", AT_FDCWD, a, AT_FDCWD, (const char *)NULL, syscall(SYS_lchown, a, u, g))
int utimensat(int d, const char *a, const struct timespec t[2], int f) PATH2_OP("utime", d, a, AT_FDCWD, (const char *)NULL, syscall(SYS_utimensat, d, a, t, f))
