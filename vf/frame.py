"""Check framework: parallel map, verdict bookkeeping, known findings, evidence, replay bundles."""
import hashlib
import json
import multiprocessing
import os
import sys
import time
import traceback

from . import core

FINDINGS_FILE = os.path.join(core.VERIF, "KNOWN_FINDINGS.txt")
_ALT = core.REPO != "/repo" or bool(os.environ.get("VF_SCRATCH"))
EVIDENCE_DIR = os.path.join(core.VERIF, ".work/evidence-alt" if _ALT else "evidence")
REPLAY_DIR = os.path.join(core.VERIF, ".work/replays-alt" if _ALT else "replays")


def pmap(func, items, workers=None, chunksize=1):
    """Parallel map with fork; exceptions inside func become {'error': ...} results."""
    items = list(items)
    workers = workers or core.NCPU
    if workers <= 1 or len(items) <= 1:
        return [_safe(func, it) for it in items]
    ctx = multiprocessing.get_context("fork")
    with ctx.Pool(workers) as pool:
        return pool.map(_Safe(func), items, chunksize)


class _Safe:
    def __init__(self, f):
        self.f = f

    def __call__(self, it):
        return _safe(self.f, it)


def _safe(f, it):
    try:
        return f(it)
    except core.Inconclusive as e:
        return {"error": "inconclusive: %s" % e}
    except Exception:
        return {"error": traceback.format_exc()[-1500:]}


def load_findings(prop):
    """-> (open: {signature: {witness, text}}, fixed: [text])"""
    op, fixed = {}, []
    if not os.path.exists(FINDINGS_FILE):
        return op, fixed
    for line in open(FINDINGS_FILE):
        line = line.strip()
        if not line or line.startswith("#"):
            continue
        if line.startswith("open:"):
            head, _, text = line[5:].partition("::")
            f = dict(kv.split("=", 1) for kv in head.split() if "=" in kv)
            if f.get("property") == prop:
                op[f.get("signature", "")] = {"witness": f.get("witness"), "text": text.strip()}
        elif line.startswith("fixed:"):
            if ("property=%s " % prop) in line:
                fixed.append(line)
    return op, fixed


def jsonable(x):
    if isinstance(x, bytes):
        try:
            return x.decode("utf-8")
        except UnicodeDecodeError:
            return {"hex": x.hex()}
    if isinstance(x, dict):
        return {str(k): jsonable(v) for k, v in x.items()}
    if isinstance(x, (list, tuple, set, frozenset)):
        return [jsonable(v) for v in x]
    if isinstance(x, (int, float, str, bool)) or x is None:
        return x
    return repr(x)


class Check:
    """One run of one property check."""

    def __init__(self, prop, tier, level, replay_fn=None):
        self.prop = prop
        self.tier = tier
        self.level = level
        self.t0 = time.time()
        self.seed = core.seed()
        self.evaluations = 0
        self.distinct = set()
        self.samples = []
        self.violations = []      # dicts: signature, detail, case
        self.known_hits = {}      # signature -> count
        self.inconclusive = {}    # reason -> count
        self.counters = {}
        self.extra = {}
        self.assumptions = []
        self.rule = ""
        self.exhaustive = None
        self.replay_fn = replay_fn
        self.open, self.fixed = load_findings(prop)
        self.built = None
        self._fallback = []

    # -- bookkeeping
    def count(self, key, n=1):
        self.counters[key] = self.counters.get(key, 0) + n

    def nontrivial(self, key):
        self.distinct.add(key if isinstance(key, (str, int, tuple)) else json.dumps(jsonable(key), sort_keys=True))

    def sample(self, s, cap=6):
        if len(self.samples) < cap:
            self.samples.append(jsonable(s))

    def inconc(self, reason, n=1):
        self.inconclusive[reason] = self.inconclusive.get(reason, 0) + n

    def violation(self, signature, detail, case=None):
        """Record one refuted case. `case` is what --replay needs."""
        if signature in self.open:
            self.known_hits[signature] = self.known_hits.get(signature, 0) + 1
            return False
        self.violations.append({"signature": signature, "detail": jsonable(detail), "case": jsonable(case)})
        return True

    def absorb(self, res):
        """Merge a worker result dict: evaluations, nontrivial[], samples[], violations[], inconclusive{}, counters{}."""
        if res is None:
            return
        if "error" in res:
            self.inconc("harness-error: " + res["error"].strip().splitlines()[-1][:160])
            self.extra.setdefault("harness_errors", [])
            if len(self.extra["harness_errors"]) < 3:
                self.extra["harness_errors"].append(res["error"])
            return
        self.evaluations += res.get("evaluations", 0)
        for k in res.get("nontrivial", ()):
            self.nontrivial(k)
        for s in res.get("samples", ()):
            self.sample(s)
        for s in res.get("samples_fallback", ()):
            if len(self._fallback) < 3:
                self._fallback.append(jsonable(s))
        for v in res.get("violations", ()):
            self.violation(v["signature"], v.get("detail"), v.get("case"))
        for k, n in res.get("inconclusive", {}).items():
            self.inconc(k, n)
        for k, n in res.get("counters", {}).items():
            self.count(k, n)

    # -- finishing
    def finish(self, min_nontrivial=2, max_inconclusive_frac=0.05):
        wall = time.time() - self.t0
        lines = []
        # replay witnesses of open findings
        known_status = {}
        for sig, f in sorted(self.open.items()):
            still = None
            if self.replay_fn and f.get("witness"):
                wp = os.path.join(core.VERIF, f["witness"])
                try:
                    still = bool(self.replay_fn(json.load(open(wp)), self))
                except Exception as e:  # witness cannot be replayed: say so, do not claim
                    still = None
                    known_status[sig] = "witness-replay-error: %s" % e
            if still or (still is None and self.known_hits.get(sig)):
                lines.append("KNOWN-FINDING: property=%s %s [signature=%s]" % (self.prop, f["text"], sig))
                known_status.setdefault(sig, "still-failing")
            elif still is False:
                known_status[sig] = "witness-no-longer-fails"
                if self.known_hits.get(sig):
                    lines.append("KNOWN-FINDING: property=%s %s [signature=%s]" % (self.prop, f["text"], sig))
                    known_status[sig] = "witness-passes-but-signature-seen"
            else:
                known_status.setdefault(sig, "not-observed")
        # violations -> replay bundles (deduplicated by signature)
        bysig = {}
        for v in self.violations:
            bysig.setdefault(v["signature"], []).append(v)
        rdir = os.path.join(REPLAY_DIR, self.prop)
        for sig, vs in sorted(bysig.items()):
            os.makedirs(rdir, exist_ok=True)
            name = hashlib.sha256(sig.encode()).hexdigest()[:10] + ".json"
            path = os.path.join(rdir, name)
            with open(path, "w") as f:
                json.dump({"property": self.prop, "signature": sig, "count": len(vs), "seed": self.seed,
                           "tier": self.tier, "first": vs[0]}, f, indent=1)
            # the interface line, exactly as specified, followed by a detail line
            lines.append("VIOLATION property=%s replay=%s" % (self.prop, path))
            lines.append("  detail: signature=%s count=%d" % (sig, len(vs)))
        total_inc = sum(self.inconclusive.values())
        if not self.samples:
            self.samples = self._fallback[:3]
        cov = {
            "evaluations": self.evaluations,
            "distinct_nontrivial": len(self.distinct),
            "rule": self.rule,
            "samples": self.samples,
            "counters": dict(sorted(self.counters.items())),
            "inconclusive": self.inconclusive,
            "known_findings": known_status,
            "known_signature_hits": self.known_hits,
            "violation_signatures": {s: len(v) for s, v in bysig.items()},
        }
        if self.exhaustive is not None:
            cov["exhaustive"] = bool(self.exhaustive)
        if self.built is not None:
            cov.update(self.built.info())
        cov.update(self.extra)
        ev = {"property_id": self.prop, "tier": self.tier, "seed": self.seed, "level": self.level,
              "coverage": jsonable(cov), "assumptions": self.assumptions, "wall_s": round(wall, 2),
              "violations": len(bysig)}
        os.makedirs(EVIDENCE_DIR, exist_ok=True)
        tmp = os.path.join(EVIDENCE_DIR, ".%s.%d.tmp" % (self.prop, os.getpid()))
        with open(tmp, "w") as f:
            json.dump(ev, f, indent=1, sort_keys=False)
            f.write("\n")
        os.replace(tmp, os.path.join(EVIDENCE_DIR, self.prop + ".json"))
        for l in lines:
            print(l)
        print("%s %s seed=%d: evaluations=%d distinct_nontrivial=%d violations=%d known=%d inconclusive=%d wall=%.1fs"
              % (self.prop, self.tier, self.seed, self.evaluations, len(self.distinct), len(bysig),
                 sum(self.known_hits.values()), total_inc, wall))
        sys.stdout.flush()
        if bysig:
            return 1
        if self.evaluations == 0 or len(self.distinct) < min_nontrivial:
            print("INCONCLUSIVE property=%s: observed too little (evaluations=%d, nontrivial=%d)"
                  % (self.prop, self.evaluations, len(self.distinct)))
            return 2
        if total_inc > max_inconclusive_frac * max(1, self.evaluations):
            print("INCONCLUSIVE property=%s: %d inconclusive cases of %d: %s"
                  % (self.prop, total_inc, self.evaluations, json.dumps(self.inconclusive)[:600]))
            return 2
        return 0


def inconclusive_exit(prop, tier, level, msg):
    """The check could not run at all (build failure...). Writes minimal evidence? No: evidence needs real counts."""
    print("INCONCLUSIVE property=%s: %s" % (prop, msg))
    sys.stdout.flush()
    return 2
