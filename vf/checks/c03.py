"""C03 - edit mode only inserts reference tokens; existing references never change."""
import json

from .. import core, frame, gen, lab, trees
from ..decomp import decompose, strip_tokens

PROP = "C03"


def classify(data):
    cls = set()
    if b"\r\n" in data:
        cls.add("crlf")
    if len(data) > 8192:
        cls.add("gt8k")
    if len(data) > (1 << 20):
        cls.add("gt1M")
    if len(data) > (4 << 20):
        cls.add("gt4M")
    if data and not data.endswith(b"\n"):
        cls.add("no_final_newline")
    try:
        s = data.decode("utf-8")
        if any(ord(c) > 127 for c in s):
            cls.add("multibyte")
    except UnicodeDecodeError:
        cls.add("invalid_utf8")
    if data.count(b'"') % 2 == 1:
        cls.add("odd_quotes")
    if not data:
        cls.add("empty")
    return cls


_TRAIL_WS = None


def prev_code_byte(b, o):
    """The last byte before offset o that is not layout, or None when that cannot be told without parsing (a comment marker on the
    way: `//` anywhere on the line, or a block comment end). No verdict is better than a guess here."""
    import re
    global _TRAIL_WS
    if _TRAIL_WS is None:
        _TRAIL_WS = re.compile(rb"(?:[ \t\r\n\x0b\x0c]|\xc2\x85|\xe2\x80[\x8e\x8f\xa8\xa9])+\Z")
    m = _TRAIL_WS.search(b, max(0, o - 4096), o)
    j = m.start() if m else o
    if j <= 0 or b[j - 2:j] == b"*/":
        return None
    ls = b.rfind(b"\n", 0, j) + 1
    if b.find(b"//", ls, j) >= 0 or b.find(b"/*", ls, j) >= 0:
        return None
    return b[j - 1:j]


def shape_of(before, after):
    """signature shape of the first difference region."""
    n = min(len(before), len(after))
    i = 0
    while i < n and before[i] == after[i]:
        i += 1
    a = after[max(0, i - 6):i + 14].decode("utf-8", "replace")
    out = []
    for ch in a:
        if ch.isdigit():
            out.append("0")
        elif ch.isalpha():
            out.append("a" if ch.isascii() else "U")
        elif ch in "\r\n":
            out.append("N")
        else:
            out.append(ch)
    return "".join(out)


def judge_files(files_before, out, truth=None, structured=False):
    """-> (violations, counters, classes)"""
    v = []
    c = {"files": 0, "files_changed": 0, "tokens": 0}
    classes = set()
    for rel, fo in out.files.items():
        c["files"] += 1
        before, after = fo.before, fo.after
        cl = classify(before)
        if after is None:
            v.append(("file-vanished", rel, {}))
            continue
        if before == after:
            classes |= {"unchanged:" + x for x in cl}
            if "invalid_utf8" in cl:
                c["invalid_utf8_untouched"] = c.get("invalid_utf8_untouched", 0) + 1
            continue
        c["files_changed"] += 1
        toks = fo.tokens
        if toks is None:
            v.append(("not-insert-only", rel, {"shape": shape_of(before, after), "len_before": len(before), "len_after": len(after)}))
            continue
        assert strip_tokens(after, toks) == before
        c["tokens"] += len(toks)
        # where a token may go: `[ref: N] ` at the first character of a message literal, `ref = N` among the macro arguments
        # (right after the opening bracket or after the separator that follows a target) - never in the middle of other text
        for t in toks:
            o = t["off"]
            if t["style"] == "msg":
                if before[o - 1:o] != b'"':
                    v.append(("token-not-at-the-start-of-a-literal", rel, {"context": before[max(0, o - 30):o + 30], "token": t["tok"]}))
                    break
            else:
                pc = prev_code_byte(before, o)
                if pc is not None and pc not in (b"(", b","):
                    v.append(("token-not-at-the-start-of-the-argument-list", rel, {"context": before[max(0, o - 30):o + 30], "token": t["tok"], "previous_code_byte": pc}))
                    break
        classes |= cl
        if len(toks) >= 1000:
            classes.add("ge1000_insertions")
        offs = sorted(t["off"] for t in toks)
        if offs:
            runs = [offs[0]] + [b_ - a_ for a_, b_ in zip(offs, offs[1:])] + [len(before) - offs[-1]]
            for name, blk in (("4KiB", 4096), ("64KiB", 65536), ("1MiB", 1 << 20)):
                if any(r and r % blk == 0 for r in runs):
                    classes.add("copy_run_multiple_of_" + name)
        # multi-byte text before an insertion point
        if "multibyte" in cl and any(max(before[:t["off"]], default=0) > 127 for t in toks[:3]):
            classes.add("multibyte_before_insertion")
        want = "kv" if structured else "msg"
        if truth and truth.get(rel):
            for (a, b, msg_off, ref, it) in truth[rel]:
                if ref is not None and any(a <= t["off"] < b for t in toks):
                    v.append(("token-added-to-referenced-statement", rel, {"statement": it.stmt.text[:160], "ref": ref}))
    return v, c, classes


def work(job):
    built, kind, seed, i, payload = job
    res = {"evaluations": 1, "nontrivial": [], "violations": [], "samples": [], "inconclusive": {}, "counters": {}}
    rnd = core.rng_for("c03", seed, kind, i)
    structured = rnd.random() < 0.4
    truth = None
    if kind == "gen":
        t = trees.gen_tree(rnd, nfiles=rnd.choice([1, 2, 4]), stmts=(0, 30), structured=structured,
                           idclass=rnd.choice(["none", "dense", "gaps", "zero", "high"]), label="g%d" % i,
                           directives=rnd.random() < 0.3, complete_prob=rnd.choice([0.0, 0.0, 0.5]))
        files, truth = t.files, t.truth
    elif kind == "genmut":
        t = trees.gen_tree(rnd, nfiles=rnd.choice([1, 2, 3]), stmts=(1, 25), structured=structured,
                           idclass=rnd.choice(["none", "dense"]), label="m%d" % i)
        files = {rel: trees.mutate(d, rnd) for rel, d in t.files.items()}
    elif kind == "big":
        # one large file: > 1 MiB and / or >= 1000 insertions, many write-buffer boundaries
        eol = rnd.choice(["\n", "\r\n"])
        gf = gen.GenFile(eol)
        nst = payload
        for k in range(nst):
            f = trees.safe_feat(rnd, structured)
            f["post"] = "semi"
            pre, st, post = gen.build_stmt(f, "B%d_%d" % (i, k), rnd, eol=eol)
            gf.add_stmt(pre, st, post)
            gf.newline()
            if k % 3 == 0:
                gf.raw("    // héllo wörld 世界 padding padding padding padding padding padding padding padding" + eol)
                gf.raw("    let filler_%d = \"%s\";%s" % (k, "-+" * rnd.randrange(0, 1500), eol))
        files = {"src/big.rs": gf.data()}
        truth = {"src/big.rs": [(it.start, it.end, it.start + it.stmt.msg, None, it) for it in gf.stmts()]}
    elif kind == "sized":
        # copy-loop geometry: the three copied runs (start..first insertion, between insertions, last insertion..end) have
        # lengths that are exact multiples of a power-of-two block size (or one byte off), and / or the file is larger than
        # 4 / 8 MiB. Statement-sparse on purpose (run time is O(statements x size), DESIGN 13.2).
        huge = payload
        B = rnd.choice([512, 4096, 8192, 16384, 65536, 65536, 131072, 1 << 20])

        def seglen():
            return rnd.choice([1, 1, 2, 3]) * B + rnd.choice([0, 0, 0, 0, -1, 1])

        def pad(n):
            out = bytearray()
            while n >= 260:
                out += b"// " + bytes(rnd.choice(b"abcdefgh -=") for _ in range(8)) * 15 + b"zzzz\n"      # 128 bytes
                n -= 128
            out += b"//" + b"p" * (n - 3) + b"\n"
            return bytes(out)
        s1 = b'    info!("SZ%d first");\n' % i
        s2 = b'    warn!("SZ%d second");\n' % i
        s3 = (b'    error!(ref = 7; "SZ%d referenced");\n' if structured else b'    error!("[ref: 7] SZ%d referenced");\n') % i
        ins = len(b'    info!(') + (0 if structured else 1)
        L1, L2, L3 = seglen(), seglen(), seglen()
        f1 = pad(max(3, L1 - ins))
        f2 = pad(max(3, L2 - (len(s1) - ins) - ins))
        extra_tail = pad(rnd.choice([4, 5, 8, 9]) * (1 << 20) + rnd.randrange(0, 4096)) if huge else b""
        f3 = pad(max(3, L3 - (len(s2) - ins) - len(s3) - len(extra_tail))) if L3 - (len(s2) - ins) - len(s3) - len(extra_tail) >= 3 else b"//\n"
        order = rnd.choice(["ref_last", "ref_mid"])
        data = f1 + s1 + f2 + s2 + (f3 + extra_tail + s3 if order == "ref_last" else s3 + f3 + extra_tail)
        files = {"src/sized.rs": data}
        res["counters"]["sized_files"] = 1
        res["counters"]["sized_files_gt4MiB"] = int(len(data) > (4 << 20))
    elif kind == "lookalike":
        # two to four files of exactly the same length that share their first and last H bytes (a licence header, a generated
        # footer) and differ only in the middle: each is a file of its own - what one of them holds says nothing about the others
        eol = "\n"
        H = rnd.choice([300, 4096, 4200, 9000, 70000])
        head = "".join("// licence header line %04d of a text every file of the project starts with ........\n" % k for k in range(H // 80 + 1))
        tail = "".join("// generated footer line %04d, the same in every file ................................\n" % k for k in range(H // 80 + 1))
        nf = rnd.choice([2, 2, 3, 4])
        mids = []
        for fi in range(nf):
            sts = []
            shapes = ["ref", "none", "ref", "none"][:rnd.choice([2, 3, 4])]
            rnd.shuffle(shapes)
            for k, sh in enumerate(shapes):
                f = dict(gen.NEUTRAL)
                f["nkv"] = rnd.choice([0, 1])
                f["pre"] = "indent"
                f["ref"] = "valid" if sh == "ref" else "none"
                sts.append(gen.build_stmt(f, "LK%d_%d_%d" % (i, fi, k), rnd, eol=eol, ref_id=(100 * (fi + 1) + k) if sh == "ref" else None))
            mids.append(sts)
        size = lambda sts: sum(len((pre + st.text + post + eol).encode()) for pre, st, post in sts)
        M = max(size(m) for m in mids) + 8
        files, truth = {}, {}
        for fi, sts in enumerate(mids):
            gf = gen.GenFile(eol)
            gf.raw(head)
            gf.raw("fn lookalike_%d() {%s" % (0, eol))
            for pre, st, post in sts:
                gf.add_stmt(pre, st, post)
                gf.newline()
            gf.raw("//" + "p" * (M - size(sts) - 3) + eol)
            gf.raw("}" + eol)
            gf.raw(tail)
            rel = "src/%s/gen_%d.rs" % (rnd.choice(["a", "b", "gen"]), fi)
            files[rel] = gf.data()
            truth[rel] = [(it.start, it.end, it.start + it.stmt.msg,
                           (int(it.stmt.ref_kv) if (structured and it.stmt.ref_kv is not None) else (it.stmt.ref_msg if not structured else None)), it)
                          for it in gf.stmts()]
        assert len({len(d) for d in files.values()}) == 1
        res["counters"]["lookalike_trees"] = 1
    elif kind == "crafted":
        # hand-written edge cases (shared with C17) plus byte-level oddities around insertion points
        from . import c17
        extra = [b"\xef\xbb\xbfinfo!(\"bom first\");\nwarn!(\"second\");\n", b"info!(\"nul \x00 inside\"); // \x00\nwarn!(\"x\");\n",
                 b"info!(\"a\");\rwarn!(\"cr only\");\rerror!(\"c\");\r", b"info!(\"\");info!(\"\");info!(\"\");warn!(\"\")",
                 b"info!(\"trailing spaces\");   \n   \n\t\nwarn!(\"x\");  ", b"info!(\"[ref: 1] [ref: 1] twice\"); info!(\"[ref: 1] \");\ninfo!(\"x\");",
                 b"info!(\"last statement, no newline\")", b"\n\n\ninfo!(\"only\")\n\n\n", b"info!(ref = 1; \"[ref: 2] both forms\"); info!(\"z\");\n",
                 ("info!(\"" + "é" * 5000 + "\"); warn!(\"after a long multi-byte message\");\n").encode(),
                 b"info!(\"x\");" * 700,
                 b'fn n() {\n    info!("[ref: 1] starting");\n    info!(outcome = run_probe_with(|| warn!("probe failed")); "[ref: 2] probe done");\n'
                 b'    error!(a = f(|| info!(k = 1; "inner with key")), b = 2; "outer without reference");\n}\n',
                 b'fn t() -> &\'static str {\n    info!("health probe answered");\n    "ok"\n}\nfn u() -> String { warn!(a = 1; "x"); "tail".to_string() }\n']
        allc = list(c17.CRAFTED) + extra
        files = {"src/c%04d.rs" % k: d for k, d in enumerate(allc[payload::4])}
        structured = (i % 2 == 1)
    elif kind == "corpus":
        label, files = payload
        structured = (i % 3 == 2)
    elif kind == "corpusmut":
        label, files = payload
        files = {rel: (trees.mutate(d, rnd) if rnd.random() < 0.7 else d) for rel, d in files.items()}
        structured = (i % 2 == 1)
    else:
        raise ValueError(kind)
    with core.Box(tag="c03") as box:
        cfg = core.make_config(structured=True if structured else None, use_cache=False,
                               macros=gen.DEFAULT_MACROS + [("log", "debug"), ("log", "trace")])
        out = lab.run_tree(built, box, files, cfg, do_check=False, trace=False, timeout=300)
        others = [p for p in core.snapshot(box.tmp)]
    if out.edit.panicked() or out.edit.timed_out:
        res["inconclusive"]["run-crashed-or-timeout (C17's business)"] = 1
        return res
    v, c, classes = judge_files(files, out, truth, structured)
    res["counters"] = c
    res["counters"]["runs_" + kind] = 1
    for cl in classes:
        res["nontrivial"].append("%s|%s|%s" % (kind.replace("mut", ""), cl, "s" if structured else "u"))
        res["counters"]["class_" + cl] = 1
    for clause, rel, detail in v:
        fo = out.files[rel]
        res["violations"].append({
            "signature": "C03.%s|%s|%s" % (clause, "structured" if structured else "unstructured", detail.get("shape", "")),
            "detail": dict(detail, file=rel, kind=kind, exit=out.edit.ended()),
            "case": {"files": {rel: fo.before}, "structured": structured}})
    if i == 0 and kind in ("gen", "corpus"):
        for rel, fo in list(out.files.items())[:40]:
            if fo.tokens:
                t0 = fo.tokens[0]
                res["samples"].append({"kind": kind, "file": rel, "tokens": len(fo.tokens),
                                       "first_token": t0["tok"], "at": t0["off"],
                                       "context_after": fo.after[max(0, t0["aoff"] - 30):t0["aoff"] + 40]})
                break
    return res


def readfault_work(job):
    """Faults on the read side: a read(2) on a source file fails, is short, or is short and then fails; whatever the run makes of
    it, every file afterwards is its original plus reference tokens (nothing missing, nothing foreign)."""
    from .. import fault
    built, seed, i, only = job
    res = {"evaluations": 0, "nontrivial": [], "violations": [], "samples": [], "inconclusive": {}, "counters": {}}
    rnd = core.rng_for("c03read", seed, i)
    structured = rnd.random() < 0.4
    proj = fault.small_project(rnd, nfiles=rnd.choice([2, 3, 5]), stmts=(1, 5), structured=structured, use_cache=rnd.choice([None, False]),
                               big=rnd.choice([None, 70000, 200000]), label="c03r%d" % i, ambient_p=0)
    ops, _, rec, _, _ = fault.clean_reference(built, proj, read_ops=True)
    plan = fault.read_fault_rules(ops)
    if only is None and len(plan) > 24:
        plan = rnd.sample(plan[:-1], 23) + plan[-1:]
    for label, rules in plan:
        if only is not None and label != only:
            continue
        with core.Box(tag="c03r") as box:
            cfg = proj.materialise(box)
            r = core.run_breadlog(built, box, cfg, rules=rules, shim=True, read_ops=True, timeout=120)
            res["evaluations"] += 1
            if r.panicked() or r.timed_out:
                res["inconclusive"]["run-crashed-or-timeout (C17's business)"] = res["inconclusive"].get("run-crashed-or-timeout (C17's business)", 0) + 1
                continue
            if not any(o["fired"] for o in (r.shim or [])):
                continue
            res["counters"]["read_fault_runs"] = res["counters"].get("read_fault_runs", 0) + 1
            res["nontrivial"].append("readfault|%s|%s|%s" % (proj.label, label.split("@")[0], r.ended()))
            for rel, before in proj.files.items():
                now = box.read(rel)
                if now != before and decompose(before, now) is None:
                    res["violations"].append({"signature": "C03.not-insert-only|after-%s|%s" % (label.split("@")[0], "structured" if structured else "unstructured"),
                                              "detail": {"file": rel, "len_before": len(before), "len_after": len(now), "exit": r.ended(), "rules": rules,
                                                         "shape": shape_of(before, now)},
                                              "case": {"readfault": [i, label]}})
                    break
    return res


def main(tier):
    ck = frame.Check(PROP, tier, "exploration", replay_fn=replay_witness)
    built = core.build_repo()
    ck.built = built
    rnd = core.rng_for("c03main", ck.seed, tier)
    quick = tier == "quick"
    jobs = []
    for i in range(1000 if quick else 12000):
        jobs.append((built, "gen", ck.seed, i, None))
    for i in range(1000 if quick else 12000):
        jobs.append((built, "genmut", ck.seed, i, None))
    for i, n in enumerate([1200, 2500] if quick else [1200, 2500, 4000, 6000, 1500, 3000]):
        jobs.append((built, "big", ck.seed, i, n))
    for i in range(8):
        jobs.append((built, "crafted", ck.seed, i, i % 4))
    for i in range(60 if quick else 1500):
        jobs.append((built, "lookalike", ck.seed, i, None))
    for i in range(150 if quick else 1500):
        jobs.append((built, "sized", ck.seed, i, i % 25 == 0))
    shards, reg = trees.corpus_shards(rnd, 16, registry_n=0 if quick else 1500)
    for i, sh in enumerate(shards):
        jobs.append((built, "corpus", ck.seed, i, sh))
    for r in range(1 if quick else 6):
        for i, sh in enumerate(shards):
            jobs.append((built, "corpusmut", ck.seed, r * 100 + i, sh))
    rnd.shuffle(jobs)
    for res in frame.pmap(work, jobs, chunksize=2):
        ck.absorb(res)
    for res in frame.pmap(readfault_work, [(built, ck.seed, i, None) for i in range(40 if quick else 500)]):
        ck.absorb(res)
    ck.extra["registry_corpus"] = reg > 0
    ck.extra["registry_files"] = reg
    need = ["class_crlf", "class_gt8k", "class_gt1M", "class_gt4M", "class_copy_run_multiple_of_64KiB", "class_copy_run_multiple_of_4KiB", "class_multibyte", "class_ge1000_insertions", "class_no_final_newline"]
    ck.extra["required_classes_seen"] = {k: ck.counters.get(k, 0) for k in need}
    for k in need:
        if not ck.counters.get(k):
            ck.inconc("required file class never changed by an edit: " + k, n=10 ** 6)
    ck.rule = ("edit runs over generated trees, mutated generated trees, large files (>1 MiB, >=1000 insertions), the "
               "repository's own corpora (rocket, fib-rs, src) sharded 16-way, and mutated corpora; one case = one run; every "
               "file is compared before/after with the insertion decomposition; distinct_nontrivial = distinct (source, file "
               "class, style) among files that were changed (classes: crlf, >8KiB, >1MiB, multibyte, >=1000 insertions, no "
               "final newline, odd quotes, invalid utf-8 untouched)")
    ck.assumptions = ["insertion decomposition (DESIGN 4.1): deleting the matched tokens from the result gives the original bytes",
                      "generator truth for 'already carries a valid reference'"]
    return ck.finish()


def replay_witness(w, ck=None, built=None):
    built = built or (ck.built if ck else None) or core.build_repo()
    c = w["case"] if "case" in w else w["first"]["case"]
    if "readfault" in c:
        return bool(readfault_work((built, w.get("seed", 0), c["readfault"][0], c["readfault"][1]))["violations"])
    files = {}
    for rel, d in c["files"].items():
        files[rel] = bytes.fromhex(d["hex"]) if isinstance(d, dict) else d.encode("utf-8")
    with core.Box(tag="c03r") as box:
        cfg = core.make_config(structured=True if c["structured"] else None, use_cache=False,
                               macros=gen.DEFAULT_MACROS + [("log", "debug"), ("log", "trace")])
        out = lab.run_tree(built, box, files, cfg, do_check=False, trace=False)
    v, _, _ = judge_files(files, out, None, c["structured"])
    return bool(v)


def replay(path):
    failing = replay_witness(json.load(open(path)))
    print("replay %s: %s" % (path, "VIOLATION reproduced" if failing else "no violation"))
    if failing:
        print("VIOLATION property=%s replay=%s" % (PROP, path))
    return 1 if failing else 0
