"""C17 - no input makes Breadlog panic or hang."""
import json
import os
import re
import signal

from .. import core, frame, gen, trees

PROP = "C17"
BATCH = 40
RUNCHARS = re.compile(rb"[A-Za-z0-9_:\s\x80-\xff]+")

CRAFTED = [
    b"", b"\n", b'"', b"!", b"(", b'info!(', b'info!("', b'info!("x', b'info!("x"', b'info!(target:', b'info!(target: "t",',
    b'info!(a = ', b'info!(a = 1;', b'info!(ref = ', b'info!(ref = 1', "é!(\"x\")\n".encode(), "世界!(\"x\")".encode(), "_é::ü!(\"x\");".encode(),
    "// breadlog:ignore\né!(\"x\")\n".encode(), "/* breadlog:no-kvp */\n\n\nñ!(a=1; \"x\")".encode(), b"\xef\xbb\xbfinfo!(\"bom\");\n",
    b'info!("\x00nul");\n', b"info!(\"cr only\");\rwarn!(\"x\");\r", b"info!(\"a\");\r\n\r\nwarn!(\"b\")", b"\xff\xfe\x00", b"info!(\"\xc3\")",
    "info!(\"[ref: ١٢٣] x\")".encode(), b'info!("[ref: 99999999999999999999] x")', b'info!(ref = 99999999999999999999; "x")',
    b'info!(ref = 4294967296; "x")', b'info!(ref = 4294967295; "x");\nwarn!("y");', b'info!("[ref: 4294967295] x"); warn!("y");',
    b"(" * 5000 + b'info!("deep")' + b")" * 5000, b'"' * 4001, b"/*" * 3000, b"//" * 3000, b"info!(" * 2000, b'info!("x");' * 3000,
    ("info!(\"" + "é" * 20000 + "\");\n").encode(), b"a!" * 4000, b"_" * 500 + b'!("x")', b"info ! ( \"spaced\" )", b"info!(r#\"raw\"#)",
    b"info!(b\"bytes\")", b"info!(concat!(\"a\", \"b\"))", b"info![\"brackets\"];", b"info!{\"braces\"}", b"log::info!(\n\n\n\n\"far\"\n\n)",
    "info!(\u0085  ‎‏\"ws\")".encode(), b"info!(target: \"t\" \"m\")", b"info!(a = \"x\" \"y\"; \"m\")", b"info!(a:? ; \"m\")",
    b"info!(a:; \"m\")", b"info!(a = ; \"m\")", b"info!(; \"m\")", b"info!(,; \"m\")", b"info!(ref = ; \"m\")", b"info!(ref; \"m\")",
    b"info!(ref = \"7\"; \"m\")", b"info!(ref = 7 7; \"m\")", b"info!(ref = 7/**/; \"m\")", b"info!(ref = 7//\n; \"m\")",
    b"// breadlog:ignore", b"// breadlog:ignore\n", b"/* breadlog:ignore */info!(\"x\")", b"\n\n\n\ninfo!(\"x\")",
    b"// breadlog:no-kvp\ninfo!(ref = 5; \"[ref: 6] x\")", b"info!(\"\\", b"info!(\"\\\"", b"info!(\"a\\\\\")", b"info!(target: \"\\\\\", \"m\")",
]


# what may follow the digits of a `ref` value / a key-value / a target before the separator: unterminated and odd constructs
_JUNK = ["/*", "/* x", "/* x *", "//", "// x\n", "\"", "'", "(", "{", "\\", "/", "*", "/*/", "*/", "/**", "/* */ /*", "/*\n", "\u0085/*", "#", "!", ".", "..", "e9", "_", "u32", "é", "\u200e", "\x00"]
for _j in _JUNK:
    for _tmpl in ('info!(ref = 12 %s; "worker starting");\n', 'info!(ref = 12 %s\n; "m");\nwarn!("next");\n', 'info!(a = 1 %s, ref = 3; "m");\n',
                  'info!(target: "t" %s, "m");\n', 'info!(ref = %s; "m");\n', 'info!(ref = 7, a %s; "m");\n', '// breadlog:no-kvp\ninfo!(ref = 1 %s; "[ref: 2] m");\n',
                  'info!("[ref: 12%s] m");\n', 'info!(%s"m");\n'):
        CRAFTED.append((_tmpl % _j).encode("utf-8"))


# many unterminated / odd constructs in one file, separated by ordinary text (a table of glob strings, a list of URLs, a column of
# quotes): whatever a recogniser does when one of them fails to close, it does it dozens of times here
for _j in _JUNK + ["/* a", "\"x", "info!(", "info!(\"", "(", "[ref: ", "ref = ", "target: \"", "a = \"", "'\"'", "r#\"", "b\""]:
    for _sep, _n in ((" ", 40), ('", "', 30), ("\n", 60), (" x = 1;\n    ", 25), ("\n", 400)):
        CRAFTED.append(((_j + _sep) * _n).encode("utf-8"))
    CRAFTED.append(('    let globs = ["src%s", "tests%s", "benches%s"];\n' % (_j, _j, _j) * 12).encode("utf-8"))


# comments that are empty or hold nothing but white space, directly above an invocation with a literal
for _c in ("/* */", "/*\t*/", "/**/", "//", "//   ", "// \t", "/* \u00a0 */", "/*\u2003*/", "//\u00a0", "/***/", "/* * */", "//!", "///"):
    for _m in ('info!("after an empty comment");', 'println!("unconfigured after an empty comment");', 'info!(a = 1; "x")'):
        CRAFTED.append((_c + "\n" + _m + "\n").encode("utf-8"))
        CRAFTED.append(("fn f() {\n    " + _c + "\n\n    " + _m + "\n}\n").encode("utf-8"))
# statements reported at columns / lines beyond 16 bits
CRAFTED.append(("static T: [&str; 3] = [" + '"entry", ' * 9000 + "]; " + 'log::warn!("far right"); info!(k = 1; "further")\n').encode("utf-8"))
CRAFTED.append(("\n" * 70000 + 'info!("line seventy thousand and one");\n').encode("utf-8"))


# macro names that are one character longer than a configured one, in every position
for _n in ("pinfo", "_warn", "xerror", "éinfo", "infox", "info_", "i", "w", "_", "log::xinfo", "x::info", "l::info", "::info", "::log::info", "log::", "::"):
    CRAFTED.append(('%s!("one character off");\n%s!(a = 1; "with a key");\n' % (_n, _n)).encode("utf-8"))


# very deep nesting (a recursive recogniser needs a stack frame per level): 150 000 closed levels of each bracket kind in every
# argument position
for _o, _c in ((b"(", b")"), (b"[", b"]"), (b"{", b"}"), (b"/*", b"*/")):
    _deep = _o * 150000 + b"x" + _c * 150000
    CRAFTED.append(b'info!(a = f' + _deep + b'; "nested value");\nwarn!("after");\n')
    CRAFTED.append(b'info!(target: "t", k = v, z = g' + _deep + b', ref = 5; "nested value before a ref");\n')
    CRAFTED.append(b'let v = h' + _deep + b';\ninfo!("after deep nesting in ordinary code");\n')
    CRAFTED.append(b'info!("message {}", w' + _deep + b');\n')


for _tail in (b"\xc3", b"\xe2\x82", b"\xf0\x9f\x98", b"\xe4", b"\xf0", b"\xf0\x9f"):
    CRAFTED.append(b'fn f() { info!("ok"); }\n// Gr' + _tail)
    CRAFTED.append(b'info!("cut ' + _tail)
    CRAFTED.append(_tail)


def shape(data):
    out = []
    for ch in data.decode("utf-8", "replace")[:60]:
        if ch.isascii() and ch.isalpha():
            c = "a"
        elif ch.isalpha():
            c = "U"
        elif ch.isdigit():
            c = "0"
        elif ch in "\r\n":
            c = "N"
        elif ch.isspace():
            c = "_"
        else:
            c = ch
        if not out or out[-1] != c or c not in "aU0_":
            out.append(c)
    return "".join(out)


def ordinary(data):
    """Shape precondition of the timing clause: <= 256 KiB and no run of identifier/whitespace/':'/non-ASCII bytes > 512."""
    if len(data) > 256 * 1024:
        return False
    return max((len(m.group(0)) for m in RUNCHARS.finditer(data)), default=0) <= 512


def run_files(built, files, structured, mode, timeout, trace=False, idbase=None, rules=None):
    with core.Box(tag="c17") as box:
        for rel, d in files.items():
            box.write(rel, d)
        cfg = box.write("Breadlog.yaml", core.make_config(structured=True if structured else None, use_cache=False))
        rec = core.run_breadlog(built, box, cfg, check=(mode == "check"), timeout=timeout, trace=trace, rules=rules, shim=bool(rules),
                                probe_blocked=8)
        after = {}
        for rel in files:
            try:
                after[rel] = box.read(rel)
            except OSError:
                after[rel] = None
    return rec, after


def bad(rec):
    if rec.timed_out and rec.blocked:
        return "blocked"      # no thread runnable, no CPU consumed while being watched: the process waits for itself
    if rec.timed_out:
        return "timeout"
    if rec.panicked():
        return "panic"
    if rec.sig:
        return "signal-%d" % rec.sig
    return None


def minimise(built, data, structured, mode, what, budget=120):
    """ddmin on bytes: keep the failure `what`."""
    cur = data
    n = 2
    runs = 0
    while len(cur) >= 2 and runs < budget:
        chunk = max(1, len(cur) // n)
        reduced = False
        for i in range(0, len(cur), chunk):
            trial = cur[:i] + cur[i + chunk:]
            runs += 1
            rec, _ = run_files(built, {"src/m.rs": trial}, structured, mode, 60)
            if bad(rec) == what:
                cur = trial
                n = max(2, n - 1)
                reduced = True
                break
            if runs >= budget:
                break
        if not reduced:
            if chunk == 1:
                break
            n = min(len(cur), n * 2)
    return cur


def work(job):
    built, seed, bi, kind, payload, calib = job
    rnd = core.rng_for("c17", seed, kind, bi)
    res = {"evaluations": 0, "nontrivial": [], "violations": [], "samples": [], "inconclusive": {}, "counters": {}}
    structured = rnd.random() < 0.4
    files = {}
    if kind.startswith("crafted"):
        structured = kind.endswith("structured")
        kind = "crafted"
        for i, d in enumerate(payload):
            files["src/c%03d.rs" % i] = d
    elif kind == "corpusmut":
        label, src = payload
        for rel, d in src.items():
            files[rel] = trees.mutate(d, rnd) if len(d) < 300000 else d
    elif kind == "genmut":
        for i in range(BATCH):
            t = trees.gen_tree(rnd, nfiles=1, stmts=(1, 12), structured=structured, idclass=rnd.choice(["none", "dense", "near_max", "zero"]), label="x%d" % i)
            d = next(iter(t.files.values()))
            for _ in range(rnd.choice([0, 1, 1, 2, 4])):
                d = trees.mutate(d, rnd)
            files["src/g%03d.rs" % i] = d
    elif kind == "random":
        alphabet = [b"info!(", b'"', b"\\", b")", b";", b",", b" ", b"\n", b"target:", b"ref", b" = ", b"7", b"a", b":?", b"//", b"/*", b"*/",
                    "é".encode(), b"log::", b"!", b"(", b"[ref: ", b"] ", b"breadlog:ignore", b"\t", b"\xff", b"'", b"{", b"}", b"_"]
        for i in range(BATCH):
            n = rnd.choice([3, 8, 20, 60, 200])
            files["src/r%03d.rs" % i] = b"".join(rnd.choice(alphabet) for _ in range(n))
    elif kind == "huge":
        # very large, but with a realistic density of log statements (run time is O(statements x file size) because
        # line/column are computed from the start of the file for every statement - measured, outside the claim)
        block = b'    let v = compute(a, b) + 7; // filler -=-=-=-=-=-=-=-=-=-=-=-=-=-=-=\n' * 400 + b'    info!("line {}", 1);\n'
        files["src/huge.rs"] = (block * (payload // len(block) + 1))[:payload]
    total = sum(len(d) for d in files.values())
    budget = max(20.0, 20.0 * calib * total)
    allordinary = all(ordinary(d) for d in files.values())
    for mode in ("check", "edit"):
        rec, after = run_files(built, files, structured, mode, timeout=3 * budget + 30, trace=(mode == "check"))
        res["evaluations"] += 1
        res["counters"]["inputs_" + kind] = res["counters"].get("inputs_" + kind, 0) + len(files)
        if rec.trace is not None:
            res["counters"]["parser_entries_observed"] = res["counters"].get("parser_entries_observed", 0) + sum(len(t["entries"]) for t in rec.trace)
        res["counters"]["max_cpu_ratio_x1000"] = max(res["counters"].get("max_cpu_ratio_x1000", 0), int(1000 * rec.cpu / budget))
        what = bad(rec)
        if what == "blocked":
            # a hang that is not a matter of speed. Reduced by halving to a small set of files that still blocks (not to one file: the
            # condition may lie between files), and reported once per batch and mode.
            cur = dict(files)
            steps = 0
            while len(cur) > 1 and steps < 12:
                names = sorted(cur)
                parts = [names[:len(names) // 2], names[len(names) // 2:]]
                if len(names) > 3:
                    parts.append(names[len(names) // 4: len(names) // 4 + (len(names) + 1) // 2])
                hit = None
                for part in parts:
                    r2, _ = run_files(built, {n: cur[n] for n in part}, structured, mode, timeout=60)
                    steps += 1
                    res["evaluations"] += 1
                    if bad(r2) == "blocked":
                        hit = part
                        break
                if hit is None:
                    break
                cur = {n: cur[n] for n in hit}
            keep = {}
            for n in sorted(cur):
                if sum(len(d) for d in keep.values()) + len(cur[n]) > 200000:
                    break
                keep[n] = cur[n]
            res["violations"].append({"signature": "C17.blocked-without-consuming-cpu|%s|%s" % (mode, "one-file" if len(cur) == 1 else "several-files"),
                                      "detail": {"files_in_reduced_set": len(cur), "first_file_head": cur[sorted(cur)[0]][:300], "mode": mode,
                                                 "structured": structured, "cpu_s": rec.cpu, "stdout_tail": rec.out[-300:]},
                                      "case": {"files": keep if len(keep) == len(cur) else dict(list(files.items())[:40]), "structured": structured, "mode": mode}})
            continue
        if what == "timeout" and rec.cpu < budget:
            res["inconclusive"]["wall-clock watchdog fired with CPU under budget"] = 1
            continue
        if what == "timeout" and not allordinary:
            # the timing clause is only claimed for inputs of ordinary shape; recorded as an observation
            res["counters"]["non_ordinary_input_over_time_budget"] = res["counters"].get("non_ordinary_input_over_time_budget", 0) + 1
            continue
        if what is None and allordinary and rec.cpu > budget:
            what = "cpu-over-budget"
        if what is None:
            continue
        # bisect the batch to single files; re-run the rest without each culprit so one defect cannot mask another
        remaining = dict(files)
        found = 0
        # a run that has used 1.5 x its CPU budget is convicted already: no need to let every bisection step run three times as long
        bt = (1.5 * budget + 10) if what == "timeout" else (3 * budget + 30)
        while remaining and found < (2 if what == "timeout" else 4):
            names = sorted(remaining)
            culprit = None
            lo, hi = 0, len(names)
            # find one culprit by halving
            cur = names
            while len(cur) > 1:
                half = cur[:len(cur) // 2]
                r2, _ = run_files(built, {n: remaining[n] for n in half}, structured, mode, timeout=bt)
                res["evaluations"] += 1
                if bad(r2) == what or (what == "cpu-over-budget" and r2.cpu > budget):
                    cur = half
                else:
                    cur = cur[len(cur) // 2:]
            culprit = cur[0]
            r3, _ = run_files(built, {culprit: remaining[culprit]}, structured, mode, timeout=bt)
            res["evaluations"] += 1
            still = bad(r3) == what or (what == "cpu-over-budget" and r3.cpu > budget and ordinary(remaining[culprit]))
            if not still:
                res["inconclusive"]["failure not reproducible on a single file"] = 1
                break
            data = remaining.pop(culprit)
            small = minimise(built, data, structured, mode, what) if what in ("panic",) or what.startswith("signal") else data[:2000]
            where = ""
            m = re.search(r"panicked at ([^\n]+)", r3.err)
            if m:
                where = re.sub(r":\d+:\d+", "", m.group(1))[:60]
            res["violations"].append({"signature": "C17.%s|%s|%s" % (what, where, shape(small)),
                                      "detail": {"file_bytes": len(data), "minimised": small[:400], "stderr": r3.err[-300:], "mode": mode,
                                                 "structured": structured, "cpu_s": r3.cpu, "budget_s": budget},
                                      "case": {"data": small if len(small) < 4000 else data[:4000], "structured": structured, "mode": mode}})
            found += 1
            r4, _ = run_files(built, remaining, structured, mode, timeout=bt)
            res["evaluations"] += 1
            if not (bad(r4) == what):
                break
    for rel, d in list(files.items())[:1]:
        res["nontrivial"].append("%s|%s|%s" % (kind, "s" if structured else "u", shape(d)[:24]))
    for rel, d in files.items():
        res["nontrivial"].append("%s|%d|%s" % (kind, len(d) // 1000, shape(d)[:16]))
    if bi == 0 and kind in ("genmut", "random"):
        k0 = sorted(files)[0]
        res["samples"].append({"kind": kind, "input_head": files[k0][:200], "bytes": len(files[k0])})
    return res


def special_work(job):
    """Entries that are not regular files but are named like sources (a named pipe nobody writes to, a socket, a directory called
    x.rs, a dangling symlink): both modes still terminate and process the regular files."""
    built, seed, i = job
    import socket as _socket
    res = {"evaluations": 0, "nontrivial": [], "violations": [], "samples": [], "inconclusive": {}, "counters": {}}
    for mode in ("check", "edit"):
        with core.Box(tag="c17s") as box:
            for rel, d in (("src/aa_first.rs", b'fn a() { error!("good too"); }\n'), ("src/good.rs", b'fn g() { info!("good one"); }\n'),
                           ("src/zz_last.rs", b'fn z() { warn!("also good"); }\n')):
                box.write(rel, d)
            os.mkfifo(os.path.join(box.proj, "src", "ipc_events.rs"))
            os.makedirs(os.path.join(box.proj, "src", "ipc"))
            os.mkfifo(os.path.join(box.proj, "src", "ipc", "m_pipe.rs"))
            os.makedirs(os.path.join(box.proj, "src", "directory.rs"))
            os.symlink("nowhere.rs", os.path.join(box.proj, "src", "dangling.rs"))
            sk = _socket.socket(_socket.AF_UNIX)
            try:
                sk.bind(os.path.join(box.proj, "src", "ctl.rs"))
            except OSError:
                pass
            sk.close()
            cfg = box.write("Breadlog.yaml", core.make_config(use_cache=False, structured=True if i % 2 else None))
            rec = core.run_breadlog(built, box, cfg, check=(mode == "check"), timeout=30)
            good_done = all(b"ref" in box.read(g) for g in ("src/good.rs", "src/zz_last.rs", "src/aa_first.rs")) if mode == "edit" else \
                len([m for m in rec.missing() if m[0].endswith(("good.rs", "zz_last.rs", "aa_first.rs"))]) == 3
        res["evaluations"] += 1
        what = bad(rec)
        if what:
            res["violations"].append({"signature": "C17.%s|special-files-named-like-sources|%s" % (what, mode), "detail": {"stderr": rec.err[-300:], "stdout": rec.out[-300:]},
                                      "case": {"special": [seed, i]}})
        elif not good_done:
            res["violations"].append({"signature": "C17.good-file-not-processed-next-to-special-files|%s" % mode, "detail": {"stdout": rec.out[-400:], "exit": rec.ended()},
                                      "case": {"special": [seed, i]}})
    # a tree in which no in-scope file can be read as text at all
    for mode in ("check", "edit"):
        rec, _ = run_files(built, {"src/latin1.rs": b'fn a() { info!("caf\xe9"); }\n', "src/utf16.rs": b"\xff\xfef\x00n\x00", "src/sub/bin.rs": bytes(range(128, 256))},
                           bool(i % 2), mode, 60)
        res["evaluations"] += 1
        if bad(rec):
            res["violations"].append({"signature": "C17.%s|no-readable-file-at-all|%s" % (bad(rec), mode), "detail": {"stderr": rec.err[-300:], "stdout": rec.out[-300:]},
                                      "case": {"special": [seed, i]}})
    res["nontrivial"].append("special|%d" % (i % 2))
    res["counters"]["trees_with_special_files"] = 1
    return res


def skip_work(job):
    """One unreadable-as-text file next to a good one: the good one is processed, the bad one is named and left alone."""
    built, seed, i = job
    rnd = core.rng_for("c17skip", seed, i)
    res = {"evaluations": 2, "nontrivial": [], "violations": [], "samples": [], "inconclusive": {}, "counters": {}}
    badbytes = rnd.choice([b"\xff\xfe", b"caf\xe9", b"\xc3(", b"\xf0\x9f", b"\xed\xa0\x80"])
    badfile = b'fn b() { info!("' + badbytes + b'"); }\n'
    if i % 3 == 2:
        # the file ends in the middle of a multi-byte character (an interrupted copy, `head -c`)
        badfile = b'fn b() { info!("whole"); }\n// Gr' + [b"\xc3", b"\xe2\x82", b"\xf0\x9f\x98"][(i // 3) % 3]
    files = {"src/bad%d.rs" % i: badfile, "src/good.rs": b'fn g() { info!("good one"); }\n',
             "src/zz_last.rs": b'fn z() { warn!("also good"); }\n', "src/aa_first.rs": b'fn a() { error!("good too"); }\n'}
    rules = None
    if i % 4 == 3:
        # the content is fine but the operating system refuses the file (permissions, I/O error, vanished after discovery)
        from .. import fault
        en = ["EACCES", "EIO", "ENOENT", "EPERM", "EISDIR", "EMFILE"][(i // 4) % 6]
        files["src/bad%d.rs" % i] = b'fn b() { info!("readable text, unreadable file"); }\n'
        rules = "kind=openr,path~=bad%d.rs,act=errno:%d" % (i, fault.ERRNO[en])
        badbytes = en.encode()
    for mode in ("check", "edit"):
        rec, after = run_files(built, files, False, mode, 60, rules=rules)
        if rules and not any(o["fired"] for o in (rec.shim or [])):
            res["inconclusive"]["open error injection did not fire"] = 1
            continue
        if bad(rec):
            res["violations"].append({"signature": "C17.%s|unreadable-file-tree" % bad(rec), "detail": {"stderr": rec.err[-300:], "rules": rules},
                                      "case": {"data": files["src/bad%d.rs" % i], "structured": False, "mode": mode, "skipjob": [seed, i]}})
            continue
        named = any(("bad%d.rs" % i) in p for p in rec.failed_reads())
        clause = None
        if not named:
            clause = "unreadable-file-not-reported"
        elif after["src/bad%d.rs" % i] != files["src/bad%d.rs" % i]:
            clause = "unreadable-file-modified"
        elif mode == "edit" and any(b"[ref: " not in after[g] for g in ("src/good.rs", "src/zz_last.rs", "src/aa_first.rs")):
            clause = "good-file-not-processed-next-to-unreadable-one"
        elif mode == "check" and len([m for m in rec.missing() if "good.rs" in m[0] or "zz_last.rs" in m[0] or "aa_first.rs" in m[0]]) != 3:
            clause = "good-file-not-checked-next-to-unreadable-one"
        if clause:
            res["violations"].append({"signature": "C17.%s|%s" % (clause, mode), "detail": {"stdout": rec.out[-400:], "exit": rec.ended()},
                                      "case": {"data": files["src/bad%d.rs" % i], "structured": False, "mode": mode, "skip": True, "skipjob": [seed, i]}})
    res["nontrivial"].append("skip|%s" % (badbytes.hex() if not rules else badbytes.decode()))
    res["counters"]["unreadable_file_trees"] = 1
    return res


def calibrate(built):
    data = (b'    info!("calibration {}", 1); let x = compute(a, b) + 7; // ordinary line of code\n' * 2400)
    rec, _ = run_files(built, {"src/c.rs": data}, False, "check", 120)
    return max(rec.cpu, 0.005) / len(data)


def main(tier):
    ck = frame.Check(PROP, tier, "exploration", replay_fn=replay_witness)
    built = core.build_repo()
    ck.built = built
    calib = calibrate(built)
    ck.extra["calibration_cpu_s_per_byte"] = calib
    rnd = core.rng_for("c17main", ck.seed, tier)
    quick = tier == "quick"
    jobs = []
    for i in range(0, len(CRAFTED), BATCH):
        jobs.append((built, ck.seed, i, "crafted", CRAFTED[i:i + BATCH], calib))
        jobs.append((built, ck.seed, i, "crafted-structured", CRAFTED[i:i + BATCH], calib))
    shards, reg = trees.corpus_shards(rnd, 16, registry_n=0 if quick else 2500)
    for rep in range(2 if quick else 12):
        for i, sh in enumerate(shards):
            jobs.append((built, ck.seed, rep * 100 + i, "corpusmut", sh, calib))
    for i in range(150 if quick else 4000):
        jobs.append((built, ck.seed, i, "genmut", None, calib))
    for i in range(150 if quick else 4000):
        jobs.append((built, ck.seed, i, "random", None, calib))
    jobs.append((built, ck.seed, 0, "huge", 4500000, calib))
    rnd.shuffle(jobs)
    for res in frame.pmap(work, jobs, chunksize=1):
        ck.absorb(res)
    for res in frame.pmap(skip_work, [(built, ck.seed, i) for i in range(24 if quick else 240)]):
        ck.absorb(res)
    for res in frame.pmap(special_work, [(built, ck.seed, i) for i in range(2 if quick else 8)]):
        ck.absorb(res)
    if tier == "thorough":
        try:
            ovf = core.build_repo(profile="debug", overflow_checks=True)
            jobs2 = [(ovf, ck.seed, 7000 + i, "genmut", None, calib * 30) for i in range(300)]
            jobs2 += [(ovf, ck.seed, 7000 + i, "random", None, calib * 30) for i in range(300)]
            jobs2 += [(ovf, ck.seed, i, "crafted", CRAFTED[i:i + BATCH], calib * 30) for i in range(0, len(CRAFTED), BATCH)]
            for res in frame.pmap(work, jobs2, chunksize=1):
                ck.absorb(res)
            ck.extra["overflow_checks_build_batches"] = len(jobs2)
        except core.Inconclusive as e:
            ck.inconc("overflow-checks build failed: %s" % str(e)[:100])
    ck.extra["registry_corpus"] = reg > 0
    ck.extra["crafted_inputs"] = len(CRAFTED)
    ck.rule = ("inputs: %d crafted edge cases, corpora with byte/char/token-level mutation and Unicode injection, generated statement "
               "files (incl. ID-boundary trees) mutated 0-4 times, random token soups, a 4.5 MB file, invalid UTF-8 next to good files; "
               "batches of %d files per process, both modes, both styles; a batch that panics / dies by signal / exceeds its CPU budget "
               "is bisected to single files, the culprit delta-minimised and the rest re-run; CPU budget = max(20 s, 20 x calibrated "
               "s/byte x bytes), asserted only on inputs of ordinary shape (<=256 KiB, identifier/whitespace runs <= 512); "
               "distinct_nontrivial = distinct (source, size class, shape prefix) of inputs" % (len(CRAFTED), BATCH))
    ck.assumptions = ["logical time (CPU seconds vs calibrated budget), wall-clock watchdog only as inconclusive",
                      "run time quadratic in identifier/whitespace run length (D14) is outside the claim by the property's own wording"]
    return ck.finish()


def replay_witness(w, ck=None, built=None):
    built = built or (ck.built if ck else None) or core.build_repo()
    c = w["case"] if "case" in w else w["first"]["case"]
    if c.get("special"):
        return bool(special_work((built, c["special"][0], c["special"][1]))["violations"])
    if c.get("skipjob"):
        return bool(skip_work((built, c["skipjob"][0], c["skipjob"][1]))["violations"])
    if c.get("files"):
        dec = lambda d: bytes.fromhex(d["hex"]) if isinstance(d, dict) else (d.encode("utf-8") if isinstance(d, str) else d)
        rec, _ = run_files(built, {rel: dec(d) for rel, d in c["files"].items()}, c["structured"], c["mode"], 90)
        return bad(rec) is not None
    d = c["data"]
    data = bytes.fromhex(d["hex"]) if isinstance(d, dict) else d.encode("utf-8")
    rec, _ = run_files(built, {"src/m.rs": data}, c["structured"], c["mode"], 120)
    return bad(rec) is not None


def replay(path):
    failing = replay_witness(json.load(open(path)))
    print("replay %s: %s" % (path, "VIOLATION reproduced" if failing else "no violation"))
    if failing:
        print("VIOLATION property=%s replay=%s" % (PROP, path))
    return 1 if failing else 0
