"""C07 - source files are replaced atomically at every crash and fault point."""
import json
import os
import signal

from .. import core, frame, fault, gen

PROP = "C07"
# online trace rule: a source file is only ever replaced by renaming a complete temporary file over it
TRACE_RULE_PHASES = ("src-write-through-name", "src-open-for-writing", "src-unlink", "src-renamed-away", "src-truncate", "src-ftruncate")
ERR_FOR_KIND = {
    "openr": ["EIO", "EACCES", "EMFILE"], "openw": ["EIO", "ENOSPC", "EACCES", "EROFS"], "write": ["EIO", "ENOSPC", "EDQUOT"],
    "rename": ["EIO", "ENOSPC", "EACCES", "EXDEV", "EPERM", "EBUSY", "EEXIST", "ENOENT"], "unlink": ["EIO", "EACCES"], "close": ["EIO"], "opendir": ["EIO", "EACCES"],
    "fsync": ["EIO"],
}


def projects(tier, seed):
    rnd = core.rng_for("c07proj", seed, tier)
    ps = []
    ps.append(fault.small_project(rnd, nfiles=3, stmts=(1, 3), label="s0"))
    ps.append(fault.small_project(rnd, nfiles=3, stmts=(1, 3), structured=True, lock=core.lock_text(100), label="s1"))
    ps.append(fault.small_project(rnd, nfiles=2, stmts=(2, 6), use_cache=False, label="s2"))
    ps.append(fault.small_project(rnd, nfiles=1, stmts=(1, 1), big=70000, label="b64k"))
    hl = fault.small_project(rnd, nfiles=2, stmts=(2, 4), label="hardlink")
    hl.hardlinks = {"src/f0.rs": "shared/f0_other_name.rs"}
    ps.append(hl)
    # ambient state that must not matter (and must survive): editor droppings / scratch-like names beside the sources,
    # write-protected sources, a stale lock scratch copy
    ps.append(fault.small_project(rnd, nfiles=2, stmts=(1, 3), label="sib", ambient_kind="siblings"))
    ps.append(fault.small_project(rnd, nfiles=2, stmts=(1, 2), structured=True, label="ro", ambient_kind="ro_sources"))
    if tier == "thorough":
        ps.append(fault.small_project(rnd, nfiles=1, stmts=(1, 2), big=1200000, label="b1m"))
        for j in range(24):
            ps.append(fault.small_project(rnd, nfiles=rnd.choice([1, 2, 4, 6]), stmts=(0, 8), structured=rnd.random() < 0.5,
                                          lock=rnd.choice([None, core.lock_text(500)]), use_cache=rnd.choice([None, None, False]),
                                          label="r%d" % j))
    return ps


def plan_for(ops, tier, rnd):
    """All injections for one project, from the clean run's op list."""
    K = len(ops)
    ks = list(range(1, K + 1))
    exhaustive = True
    if K > 400:
        # all non-write ops, first / last 20 writes of the run, seeded sample of the middle
        writes = [o["n"] for o in ops if o["kind"] == "write"]
        keep = set(o["n"] for o in ops if o["kind"] != "write") | set(writes[:20]) | set(writes[-20:])
        mid = [w for w in writes if w not in keep]
        keep |= set(rnd.sample(mid, min(len(mid), 40 if tier == "quick" else 300)))
        ks = sorted(keep)
        exhaustive = False
    inj = []
    for k in ks:
        o = ops[k - 1]
        inj.append((k, "kill-before", "n=%d,act=kill-before" % k))
        inj.append((k, "kill-after", "n=%d,act=kill-after" % k))
        for e in ERR_FOR_KIND.get(o["kind"], []):
            inj.append((k, e, "n=%d,act=errno:%d" % (k, fault.ERRNO[e])))
        if o["kind"] == "write" and o["bytes"] > 1:
            inj.append((k, "short", "n=%d,act=short" % k))
            # a partial failure: the write stores a prefix, the write of the remainder fails (what ENOSPC / EDQUOT / RLIMIT_FSIZE
            # do when the limit falls inside a buffer), later operations succeed again
            for e in ("ENOSPC", "EIO", "EINTR"):
                inj.append((k, "short+" + e, "n=%d,act=short;n=%d,act=errno:%d" % (k, k + 1, fault.ERRNO[e])))
    return inj, exhaustive, K


def notmp_wrap(box):
    """TMPDIR is not set at all: the temporary directory is /tmp - a private one (the sandbox's, bind-mounted in a mount namespace of
    the run's own), so that what the run leaves there can be told from everybody else's files."""
    return (["unshare", "-m", "sh", "-c", 'mount --bind "$1" /tmp || exit 97; shift; unset TMPDIR; exec "$@"', "sh", box.tmp],
            {"VF_SHIM_ROOT2": "/tmp"})


def run_injection(built, proj, expected, k, action, rules, xdev=False, stdio=False, reads=False, notmp=False):
    import shutil
    with core.Box(tag="c07") as box:
        cfg = proj.materialise(box)
        td = fault.foreign_tmpdir(box) if xdev else None
        wrap, envx = notmp_wrap(box) if notmp else (None, None)
        try:
            rec = core.run_breadlog(built, box, cfg, rules=rules, timeout=120, tmpdir=td, stdio_ops=stdio, read_ops=reads, wrap=wrap, env_extra=envx)
        finally:
            if td:
                shutil.rmtree(td, ignore_errors=True)
        states, ids = fault.post_state(proj, box, expected)
        other = fault.others_changed(proj, box)
    fired = [o for o in (rec.shim or []) if o["fired"]]
    return rec, states, other, fired


def work(job):
    built, pi, proj, expected, k, action, rules, phase = job[:8]
    xdev = job[8] if len(job) > 8 else False
    stdio = job[9] if len(job) > 9 else False
    notmp = job[10] if len(job) > 10 else False
    reads = str(action).startswith("read-") or action == "all-reads-short"
    res = {"evaluations": 1, "nontrivial": [], "violations": [], "samples": [], "inconclusive": {}, "counters": {}}
    rec, states, other, fired = run_injection(built, proj, expected, k, action, rules, xdev, stdio, reads, notmp)
    if notmp:
        if rec.rc == 97:
            res["inconclusive"]["no private mount namespace available for the TMPDIR-unset runs"] = 1
            return res
        phase = "no-TMPDIR:" + phase
        res["counters"]["injections_with_TMPDIR_unset"] = 1
    if reads:
        res["counters"]["read_fault_injections"] = 1
    if xdev:
        phase = "xdev:" + phase
        res["counters"]["cross_device_tmpdir_injections"] = 1
    if reads:
        pass
    elif action in ("stall+kill", "stall+EIO"):
        res["counters"]["stalled_write_injections"] = 1
        fired = [o for o in fired if o["fired"].startswith("kill")] or fired
    elif action.startswith("short+"):
        res["counters"]["partial_failure_injections"] = 1
        fired = fired if len(fired) >= 2 else []
    elif ";" in (rules or ""):
        phase = "after-fault:" + phase
        res["counters"]["second_order_injections"] = 1
        fired = [o for o in fired if o["fired"].startswith("kill")] if any(o["fired"].startswith("kill") for o in fired) else []
    if rec.timed_out:
        res["inconclusive"]["timeout"] = 1
        return res
    if not fired:
        if action == "short" or action.startswith("short+"):
            res["counters"]["short-write-not-applicable"] = 1
            return res
        res["inconclusive"]["injection did not fire"] = 1
        return res
    if rec.panicked() and action != "EPIPE-on-log-line":
        res["inconclusive"]["run-panicked (C17's business)"] = 1
    res["nontrivial"].append("%s|%s|%s|%s" % (proj.label, k, action, "x" if xdev else ""))
    res["counters"]["fired_%s" % (action if action.startswith("kill") or action == "short" else ("persistent" if action.startswith("persistent") else "errno"))] = 1
    res["counters"]["phase_%s" % phase] = 1
    for st in set(states.values()):
        res["counters"]["poststate_" + st.split(":")[0]] = 1
    # online trace rule: nothing is written through a name that is already a source file
    through = [o for o in (rec.shim or []) if fault.phase_of(o) in TRACE_RULE_PHASES]
    torn = {rel: s for rel, s in states.items() if s.startswith("torn")}
    act_class = "signal+kill" if action.startswith("SIGTERM+") else action if (action in ("signal", "kill-before", "kill-after", "short", "EPIPE-on-log-line", "all-reads-short", "stall+kill", "stall+EIO") or action.startswith("read-")) else "short+errno" if action.startswith("short+") else ("persistent-errno" if action.startswith("persistent") else ("errno+kill" if "+kill" in action else "errno"))
    for rel, s in sorted(torn.items()):
        res["violations"].append({"signature": "C07.%s|%s|%s" % (s, act_class, phase),
                                  "detail": {"file": rel, "state": s, "k": k, "action": action, "phase": phase, "end": rec.ended(),
                                             "fired": fired[:1], "ops_tail": [(o["n"], o["kind"], os.path.basename(o["path"]), o["bytes"]) for o in (rec.shim or [])[-6:]]},
                                  "case": {"project": pi, "k": k, "action": action, "rules": rules, "xdev": xdev, "notmp": notmp}})
        break
    if other:
        res["violations"].append({"signature": "C07.other-project-file-changed|%s|%s" % (act_class, phase), "detail": {"files": other},
                                  "case": {"project": pi, "k": k, "action": action, "rules": rules}})
    if through and not torn:
        o = through[0]
        res["violations"].append({"signature": "C07.write-through-source-name|%s" % fault.phase_of(o),
                                  "detail": {"op": o, "note": "trace rule: a source file is only ever replaced by rename"},
                                  "case": {"project": pi, "k": k, "action": action, "rules": rules}})
    if k in (3, 9) and action == "kill-after" and pi == 0:
        res["samples"].append({"project": proj.label, "injection": rules, "phase": phase, "ended": rec.ended(), "fired": fired[:1],
                               "post_states": states})
    return res


def history_work(job):
    """Two runs over one tree and one TMPDIR: run 1 is killed at operation k (its scratch file stays behind), the developer then
    rewrites the sources - shorter than before, each still lacking a reference - and run 2 is an ordinary fault-free run.
    Every source must afterwards be its new original or the complete update of it."""
    built, pi, proj, k, how = job
    res = {"evaluations": 2, "nontrivial": [], "violations": [], "samples": [], "inconclusive": {}, "counters": {}}
    rnd = core.rng_for("c07hist", pi, k, how)
    with core.Box(tag="c07h") as box:
        cfg = proj.materialise(box)
        r1 = core.run_breadlog(built, box, cfg, rules="n=%d,act=%s" % (k, how), timeout=120)
        fired = [o for o in (r1.shim or []) if o["fired"]]
        left = fault.tmp_leftovers(box)
        newfiles = {}
        for rel in proj.files:
            cur = box.read(rel).split(b"\n")
            keep = [l for l in cur if b"!(" in l and rnd.random() < 0.5][:2]
            newfiles[rel] = b"\n".join([b"// rewritten"] + keep + [b'    warn!("H%d rewritten and shorter");' % pi, b""])
            os.chmod(os.path.join(box.proj, rel), 0o644)
            box.write(rel, newfiles[rel])
        proj2 = fault.Project(newfiles, structured=proj.structured, use_cache=proj.use_cache, extra=proj.extra, label=proj.label + "-h")
        r2 = core.run_breadlog(built, box, cfg, timeout=120)
        states, ids = fault.post_state(proj2, box, {})
        other = fault.others_changed(proj2, box)
    if r1.timed_out or r2.timed_out:
        res["inconclusive"]["timeout"] = 1
        return res
    if not fired:
        res["inconclusive"]["injection did not fire"] = 1
        return res
    res["nontrivial"].append("history|%s|%s|%s|leftover=%s" % (proj.label, k, how, bool(left)))
    res["counters"]["two_run_histories"] = 1
    res["counters"]["two_run_histories_with_scratch_left_by_run_1"] = int(bool(left))
    torn = {rel: st for rel, st in states.items() if st.startswith("torn")}
    for rel, st in sorted(torn.items()):
        res["violations"].append({"signature": "C07.%s|second-run-after-%s" % (st, how),
                                  "detail": {"file": rel, "state": st, "k": k, "scratch_left_by_run_1": left[:3], "run2_exit": r2.ended(),
                                             "now": box_tail(newfiles[rel]), "run1_fired": fired[:1]},
                                  "case": {"history": [pi, k, how]}})
        break
    if other:
        res["violations"].append({"signature": "C07.other-project-file-changed|second-run-after-%s" % how, "detail": {"files": other},
                                  "case": {"history": [pi, k, how]}})
    return res


def overlap_work(job):
    """Two edit runs on two different projects at the same time with one TMPDIR (workspace members processed in parallel, an
    on-save hook during a manual run): run A is held at one of its scratch-file operations, run B runs to completion meanwhile,
    then A continues. Neither project may end up with anything but its own originals or complete updates."""
    built, pi, projA, projB, k = job
    res = {"evaluations": 2, "nontrivial": [], "violations": [], "samples": [], "inconclusive": {}, "counters": {}}
    with core.Box(tag="c07oa") as boxA, core.Box(tag="c07ob") as boxB:
        cfgA = projA.materialise(boxA)
        cfgB = projB.materialise(boxB)
        done = {}

        def run_b():
            done["b"] = core.run_breadlog(built, boxB, cfgB, tmpdir=boxA.tmp, timeout=60)
        recA = core.run_breadlog(built, boxA, cfgA, rules="n=%d,act=delay:700" % k, shim=True, timeout=120, on_first_fire=run_b)
        # B may still be running when A has finished (it was started from a watcher thread): wait for it
        import time as _t
        t0 = _t.time()
        while "b" not in done and _t.time() - t0 < 90:
            _t.sleep(0.01)
        statesA, _ = fault.post_state(projA, boxA, {})
        statesB, _ = fault.post_state(projB, boxB, {})
        _t.sleep(0.05)
        statesB2, _ = fault.post_state(projB, boxB, {})
    if "b" not in done:
        res["inconclusive"]["second run was never started (the delay did not fire)"] = 1
        return res
    res["nontrivial"].append("overlap|%s|%d" % (projA.label, k))
    res["counters"]["overlapping_runs"] = 1
    for who, states in (("held-run", statesA), ("other-run", statesB), ("other-run-later", statesB2)):
        torn = {rel: st for rel, st in states.items() if st.startswith("torn")}
        if torn:
            rel = sorted(torn)[0]
            res["violations"].append({"signature": "C07.%s|overlapping-runs-sharing-TMPDIR|%s" % (torn[rel], who),
                                      "detail": {"file": rel, "exitA": recA.ended(), "exitB": done["b"].ended()},
                                      "case": {"overlap": [pi, k]}})
            break
    return res


def box_tail(b):
    return b[-200:]


def main(tier):
    ck = frame.Check(PROP, tier, "fault_enumeration", replay_fn=replay_witness)
    built = core.build_repo()
    core.build_shim()
    ck.built = built
    rnd = core.rng_for("c07", ck.seed, tier)
    ps = projects(tier, ck.seed)
    jobs = []
    ktable = {}
    allexh = True
    audit = []
    for pi, proj in enumerate(ps):
        ops, after, rec, expected, lock = fault.clean_reference(built, proj)
        if rec.rc != 0:
            ck.inconc("clean reference run failed for project %s" % proj.label)
            continue
        inj, exh, K = plan_for(ops, tier, rnd)
        ktable[proj.label] = {"K": K, "injections": len(inj), "exhaustive": exh,
                              "ops_by_kind": {k: sum(1 for o in ops if o["kind"] == k) for k in set(o["kind"] for o in ops)}}
        allexh = allexh and exh
        # determinism re-measured: a second clean run must give the same op sequence
        ops2, _, _, _, _ = fault.clean_reference(built, proj)
        same = [(o["kind"], o["bytes"]) for o in ops] == [(o["kind"], o["bytes"]) for o in ops2]
        ktable[proj.label]["op_sequence_deterministic"] = same
        if not same:
            ck.inconc("op sequence not deterministic for %s" % proj.label)
        # clean-run trace rule
        for o in ops:
            if fault.phase_of(o) in TRACE_RULE_PHASES:
                ck.violation("C07.write-through-source-name|clean-run|%s" % fault.phase_of(o), {"op": o, "project": proj.label},
                             {"project": pi, "k": 0, "action": "none", "rules": None})
        for k, action, rules in inj:
            jobs.append((built, pi, proj, expected, k, action, rules, fault.phase_of(ops[k - 1])))
        # second-order points: after a failed rename / temp create the run continues on an error path with operations the
        # clean run never performs; every one of those is a crash point too (fault at k, then kill before/after each later op j)
        ren_ops = [o["n"] for o in ops if o["kind"] == "rename" and o["path"].endswith(".tmp") and "Breadlog.lock" not in o["path"]]
        crt_ops = [o["n"] for o in ops if fault.phase_of(o) == "tmp-create"]
        pick_k = set(ren_ops[:2] + crt_ops[:1]) if tier == "quick" else set(ren_ops[:6] + crt_ops[:3])
        first_order = [(k, a, r) for k, a, r in inj if not a.startswith("kill") and a != "short" and k in pick_k]
        for k, a, r in first_order:
            rec1, _, _, fired1 = run_injection(built, proj, expected, k, a, r)
            if not fired1 or not rec1.shim:
                continue
            K1 = len(rec1.shim)
            for j in range(k + 1, K1 + 1):
                o = rec1.shim[j - 1]
                for act in ("kill-before", "kill-after"):
                    jobs.append((built, pi, proj, expected, "%d+%d" % (k, j), a + "+" + act, "%s;n=%d,act=%s" % (r, j, act), fault.phase_of(o)))
        # a stop request after the first file has been replaced, then a kill before / after every later operation of the stopping run
        # (`timeout -k`, `docker stop`: SIGTERM, then SIGKILL) - whatever the run does while it winds down must be crash-safe too
        ren0 = next((o["n"] for o in ops if o["kind"] == "rename" and "Breadlog.lock" not in (o["path"] or "")), None)
        if ren0 and pi < 4:
            for ksig in (ren0 + 1, ren0 + 2):
                rs = "n=%d,act=sig:15" % ksig
                rec1, _, _, fired1 = run_injection(built, proj, expected, ksig, "sig", rs)
                if not fired1 or not rec1.shim:
                    continue
                for j in range(ksig + 1, len(rec1.shim) + 1):
                    for act in ("kill-before", "kill-after"):
                        jobs.append((built, pi, proj, expected, "%d+%d" % (ksig, j), "SIGTERM+" + act, "%s;n=%d,act=%s" % (rs, j, act), fault.phase_of(rec1.shim[j - 1])))
        # a stop request at every scratch-file operation (no kill): whatever is done with the file in hand, it ends original or complete
        for o in ops:
            if fault.phase_of(o).startswith("tmp-") or fault.phase_of(o) == "rename":
                for signo in (15, 2):
                    jobs.append((built, pi, proj, expected, o["n"], "signal", "n=%d,act=sig:%d" % (o["n"], signo), fault.phase_of(o)))
        # stdout is a pipe whose reader has gone away: the k-th log line fails with EPIPE, println! panics, the process unwinds
        # (destructors run) - for every log line of the clean run
        sops, _, _, _, _ = fault.clean_reference(built, proj, stdio_ops=True)
        for o in sops:
            if o["kind"] == "stdio":
                jobs.append((built, pi, proj, expected, o["n"], "EPIPE-on-log-line", "n=%d,kind=stdio,act=errno:32" % o["n"], "log-line", False, True))
        # a write to the scratch file that stalls for seconds (hung NFS / FUSE mount) with the process killed right after the rename:
        # whatever the run does while it waits, the source must not name an incomplete file
        if pi < 3:
            # per scratch file: its last write (the one the final flush issues) and, for the first file, its first write
            lastw = {}
            for o in ops:
                if fault.phase_of(o) == "tmp-write":
                    lastw[o["path"]] = o["n"]
            tw = [o["n"] for o in ops if fault.phase_of(o) == "tmp-write"]
            for k in sorted(set(list(lastw.values())[:3] + tw[:1])):
                jobs.append((built, pi, proj, expected, k, "stall+kill", "n=%d,act=delay:6500;from=%d,kind=rename,path~=breadlog-,act=kill-after" % (k, k), "tmp-write"))
                # ... or the stalled write finally fails (EIO after a soft-mount time-out): the file must not be replaced
                jobs.append((built, pi, proj, expected, k, "stall+EIO", "n=%d,act=slowerr:5" % k, "tmp-write"))
        # faults on the read side: every read(2) on a source file fails / is short / is short and then fails
        rops, _, _, _, _ = fault.clean_reference(built, proj, read_ops=True)
        for label, rules in fault.read_fault_rules(rops):
            jobs.append((built, pi, proj, expected, label.split("@")[-1], label.split("@")[0], rules, "src-read"))
        # persistent faults: every rename (temp create, temp write) fails with E for the whole run
        for e in ("EIO", "EACCES", "EPERM", "EXDEV", "ENOSPC", "EBUSY", "EEXIST"):
            for kind, scope in (("rename", "kind=rename,path~=breadlog-"), ("openw", "kind=openw,path~=breadlog-"), ("write", "kind=write,path~=breadlog-")):
                if kind != "rename" and e in ("EXDEV", "EBUSY", "EEXIST", "EPERM"):
                    continue
                jobs.append((built, pi, proj, expected, "all-%s" % kind, "persistent-" + e, "%s,act=errno:%d" % (scope, fault.ERRNO[e]), "persistent:" + kind))
        # the same run with TMPDIR not set at all (the temporary directory is then /tmp): every operation is a crash point
        if pi in (0, 2) or tier == "thorough":
            for k in ([o["n"] for o in ops if o["kind"] != "write"] + [o["n"] for o in ops if o["kind"] == "write"][:20]):
                for act in ("kill-before", "kill-after"):
                    jobs.append((built, pi, proj, expected, k, act, "n=%d,act=%s" % (k, act), fault.phase_of(ops[k - 1]), False, False, True))
                if ops[k - 1]["kind"] in ("openw", "rename"):
                    jobs.append((built, pi, proj, expected, k, "EACCES", "n=%d,act=errno:13" % k, fault.phase_of(ops[k - 1]), False, False, True))
        # a genuine cross-device TMPDIR: every rename fails with a real EXDEV; all operations of that run are crash points
        if pi in (0, 3) or tier == "thorough":
            xops, _, xrec, _, _ = fault.clean_reference(built, proj, xdev=True)
            if xops and any(o["kind"] == "rename" and o["errno"] == 18 for o in xops):
                ktable[proj.label]["K_cross_device"] = len(xops)
                xks = [o["n"] for o in xops if o["kind"] != "write"] + [o["n"] for o in xops if o["kind"] == "write"][:30]
                for k in sorted(set(xks)):
                    for act in ("kill-before", "kill-after"):
                        jobs.append((built, pi, proj, expected, k, act, "n=%d,act=%s" % (k, act), fault.phase_of(xops[k - 1]), True))
                    if xops[k - 1]["kind"] in ("write", "openw", "rename"):
                        jobs.append((built, pi, proj, expected, k, "EIO", "n=%d,act=errno:5" % k, fault.phase_of(xops[k - 1]), True))
            else:
                ktable[proj.label]["K_cross_device"] = "no second filesystem available"
    hjobs = []
    for pi, proj in enumerate(ps):
        ops, _, rec, _, _ = fault.clean_reference(built, proj)
        if rec.rc != 0:
            continue
        cand = [o["n"] for o in ops if fault.phase_of(o) in ("tmp-write", "tmp-close", "tmp-fsync", "rename", "tmp-create")]
        for k in (cand if len(cand) <= 12 else rnd.sample(cand, min(len(cand), 12 if tier == "quick" else 60))):
            hjobs.append((built, pi, proj, k, "kill-before"))
            hjobs.append((built, pi, proj, k, "kill-after"))
    for res in frame.pmap(history_work, hjobs, chunksize=4):
        ck.absorb(res)
    ojobs = []
    for pi in range(min(3, len(ps) - 1)):
        projA, projB = ps[pi], ps[pi + 1]
        opsA, _, recA0, _, _ = fault.clean_reference(built, projA)
        cand = [o["n"] for o in opsA if fault.phase_of(o) in ("tmp-write", "tmp-close", "rename", "tmp-create")]
        for k in cand[:6]:
            ojobs.append((built, pi, projA, projB, k))
    for res in frame.pmap(overlap_work, ojobs, chunksize=1):
        ck.absorb(res)
    audit = blind_spot_audit(built, ps[0])
    ck.extra["blind_spot_audit"] = audit
    if audit.get("missed"):
        print("INCONCLUSIVE property=%s: shim blind spot %s" % (PROP, audit["missed"][:3]))
        ck.inconc("shim blind spot: %s" % audit["missed"][:3], n=10 ** 6)
    rnd.shuffle(jobs)
    for res in frame.pmap(work, jobs, chunksize=8):
        ck.absorb(res)
    ck.extra["trees"] = ktable
    ck.exhaustive = allexh
    ck.rule = ("for each driven project the clean run's K filesystem operations are re-measured (shim); every k in 1..K x {kill-before, "
               "kill-after} and every k whose kind admits it x {EIO, ENOSPC, EACCES, EROFS, EDQUOT, EMFILE, EXDEV(rename), short "
               "write} is injected in a fresh sandbox; second-order points (a failed rename / temp create at k, then a kill before/after "
               "every later operation j of that error path) and a run with TMPDIR on another filesystem (genuine EXDEV, every operation "
               "a crash point) are enumerated as well (for the >64 KiB / >1 MiB files: all non-write ops, the first and last 20 "
               "writes and a seeded sample of the middle; exhaustive:true only when every project was enumerated completely); "
               "post-state of every source file classified original / complete / torn by the insertion decomposition against the "
               "clean run's insertion offsets; distinct_nontrivial = distinct (project, k, action) whose injection fired")
    ck.assumptions = ["crash = process death (SIGKILL), not power loss; rename(2) atomic within one filesystem",
                      "leftover temporary files after a kill are expected and ignored; the lock is C02's business",
                      "shim sees every mutating libc call (audited against strace in this run)"]
    return ck.finish()


def blind_spot_audit(built, proj):
    """One clean edit run under both the shim and strace: every successful mutating syscall on a sandbox path must
    correspond to a shim event of the same kind (counts compared per kind)."""
    from collections import Counter
    from . import c04
    norm = {"rename": "rename", "renameat": "rename", "renameat2": "rename", "unlink": "unlink", "unlinkat": "unlink",
            "mkdir": "mkdir", "mkdirat": "mkdir", "rmdir": "rmdir", "link": "link", "linkat": "link", "symlink": "symlink",
            "symlinkat": "symlink", "truncate": "truncate", "ftruncate": "ftruncate", "fallocate": "fallocate",
            "chmod": "chmod", "fchmod": "chmod", "fchmodat": "chmod"}
    with core.Box(tag="aud") as box:
        cfg = proj.materialise(box)
        rec = core.run_breadlog(built, box, cfg, shim=True, strace=True)
        sysc = Counter()
        for pid, name, args, result in c04.parse_strace(rec.strace):
            if result.startswith("-1") or result == "?":
                continue
            if name in norm:
                if box.root + "/" in args:
                    sysc[norm[name]] += 1
            elif name in ("open", "openat", "creat"):
                if box.root + "/" in result and any(f in args for f in ("O_WRONLY", "O_RDWR", "O_CREAT", "O_TRUNC")):
                    sysc["openw"] += 1
            elif name in ("write", "writev", "pwrite64", "pwritev"):
                m = c04.FDPATH.match(args)
                if m and m.group(2).startswith(box.root + "/"):
                    sysc["write"] += 1
        shim = Counter(o["kind"].replace("pwrite", "write") for o in rec.shim
                       if o["kind"] in ("openw", "write", "pwrite", "rename", "unlink", "mkdir", "rmdir", "link", "symlink",
                                        "truncate", "ftruncate", "fallocate", "chmod") and (o["ret"] is not None and o["ret"] >= 0))
    missed = [(k_, sysc[k_], shim.get(k_, 0)) for k_ in sysc if sysc[k_] > shim.get(k_, 0)]
    return {"strace_mutating_calls": dict(sysc), "shim_mutating_events": dict(shim), "missed": missed}


def replay_witness(w, ck=None, built=None):
    built = built or (ck.built if ck else None) or core.build_repo()
    core.build_shim()
    c = w["case"] if "case" in w else w["first"]["case"]
    seed = w.get("seed", 0)
    tier = w.get("tier", "quick")
    ps = projects(tier, seed)
    if "overlap" in c:
        pi, k = c["overlap"]
        return bool(overlap_work((built, pi, ps[pi], ps[pi + 1], k))["violations"])
    if "history" in c:
        pi, k, how = c["history"]
        return bool(history_work((built, pi, ps[pi], k, how))["violations"])
    proj = ps[c["project"]]
    ops, after, rec, expected, lock = fault.clean_reference(built, proj)
    if not c.get("rules"):
        return any(fault.phase_of(o) in TRACE_RULE_PHASES for o in ops)
    phase = "?"
    r = work((built, c["project"], proj, expected, c["k"], c["action"], c["rules"], phase, c.get("xdev", False), c.get("action") == "EPIPE-on-log-line", c.get("notmp", False)))
    return bool(r["violations"])


def replay(path):
    failing = replay_witness(json.load(open(path)))
    print("replay %s: %s" % (path, "VIOLATION reproduced" if failing else "no violation"))
    if failing:
        print("VIOLATION property=%s replay=%s" % (PROP, path))
    return 1 if failing else 0
