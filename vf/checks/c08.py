"""C08 - an edit run that could not update a file does not report success."""
import itertools
import json
import os

from .. import core, frame, fault
from ..decomp import decompose

PROP = "C08"
UPDATE_PHASES = ("tmp-create", "tmp-write", "tmp-rename", "rename", "tmp-fsync", "tmp-fchmod", "tmp-chmod", "tmp-ftruncate", "tmp-fchown",
                 "tmp-link", "tmp-pwrite", "tmp-utimensat")


def projects(tier, seed):
    rnd = core.rng_for("c08proj", seed, tier)
    ps = [fault.small_project(rnd, nfiles=4, stmts=(1, 3), label="p0"),
          fault.small_project(rnd, nfiles=3, stmts=(1, 4), structured=True, lock=core.lock_text(300), label="p1"),
          fault.small_project(rnd, nfiles=2, stmts=(1, 2), big=40000, use_cache=False, label="p2"),
          # ambient state that must not matter: write-protected sources, a stale lock scratch copy, editor droppings
          fault.small_project(rnd, nfiles=3, stmts=(1, 3), label="p_ro", ambient_kind="ro_sources"),
          fault.small_project(rnd, nfiles=2, stmts=(1, 3), structured=True, label="p_stale", ambient_kind="stale_lock_tmp"),
          fault.small_project(rnd, nfiles=2, stmts=(1, 3), label="p_sib", ambient_kind="siblings")]
    # structured project whose files mix statements lacking a reference with statements whose `ref` value is unusable (left alone,
    # never counted) and ignored ones
    ps.append(fault.Project({
        "src/u.rs": b'fn u() {\n    info!(ref = request_id; "Pu unusable one");\n    warn!("Pu needs one");\n'
                    b'    error!(a = 1, ref = "x"; "Pu unusable two");\n    info!(b = 2; "Pu needs another");\n'
                    b'    // breadlog:ignore\n    error!("Pu ignored");\n}\n',
        "src/v.rs": b'fn v() {\n    info!(ref = 1.5; "Pv only unusable");\n}\n',
        "src/w.rs": b'fn w() {\n    warn!(k = 1; "Pw needs one");\n}\n'}, structured=True, label="p_unusable"))
    if True:
        for j in range(60 if tier == "thorough" else 10):
            ps.append(fault.small_project(rnd, nfiles=rnd.choice([2, 3, 4]), stmts=(1, 5), structured=rnd.random() < 0.5,
                                          lock=rnd.choice([None, core.lock_text(900)]), label="q%d" % j))
    return ps


def plan(proj, ops, tier, rnd):
    """-> list of (label, rules, kind) ; kind in single|persistent|subset|short"""
    inj = []
    upd = [o for o in ops if fault.phase_of(o) in UPDATE_PHASES]
    cap = 60 if tier == "quick" else 400
    writes = [o for o in upd if o["kind"] == "write"]
    pick = upd if len(upd) <= cap else [o for o in upd if o["kind"] != "write"] + rnd.sample(writes, min(cap, len(writes)))
    for o in pick:
        errs = {"openw": ["EIO", "ENOSPC", "EACCES"], "write": ["EIO", "ENOSPC"], "rename": ["EXDEV", "EACCES", "EIO"], "fsync": ["EIO"]}.get(o["kind"], ["EPERM", "EIO"])
        for e in errs:
            inj.append(("single:%s@%d" % (e, o["n"]), "n=%d,act=errno:%d" % (o["n"], fault.ERRNO[e]), "single"))
        if o["kind"] == "write" and o["bytes"] > 1:
            inj.append(("short@%d" % o["n"], "n=%d,act=short" % o["n"], "short"))
    # persistent: disk full from op k on (only writes and creates fail)
    firsts = [o["n"] for o in upd][:: max(1, len(upd) // (8 if tier == "quick" else 40))]
    for k in firsts:
        inj.append(("persistent:ENOSPC-from-%d" % k, "from=%d,kind=write,act=errno:28;from=%d,kind=openw,act=errno:28" % (k, k), "persistent"))
    # path-scoped faults on every non-empty subset of <= 4 files
    names = sorted(proj.files)[:4]
    for r in range(1, len(names) + 1):
        for sub in itertools.combinations(names, r):
            rules = ";".join("kind=rename,dst~=%s,act=errno:%d" % (os.path.basename(n), fault.ERRNO["EXDEV"]) for n in sub)
            inj.append(("subset-rename:" + "+".join(os.path.basename(n) for n in sub), rules, "subset"))
    # the rename of one file fails on every attempt with an errno that invites retrying (busy bind mount, NFS time-out)
    for n in names[:2]:
        for e in ("EBUSY", "EINTR", "EAGAIN", "ETIMEDOUT"):
            inj.append(("rename-always-%s:%s" % (e, os.path.basename(n)), "kind=rename,dst~=%s,act=errno:%d" % (os.path.basename(n), fault.ERRNO[e]), "subset"))
    # every temp create fails / every second one
    inj.append(("all-tmp-creates-fail", "kind=openw,path~=/tmp/breadlog-,act=errno:13", "subset"))
    inj.append(("all-writes-short", "kind=write,act=short", "short"))
    # two independent faults
    if len(upd) >= 4:
        for _ in range(6 if tier == "quick" else 60):
            a, b = sorted(rnd.sample([o["n"] for o in upd], 2))
            inj.append(("double:%d+%d" % (a, b), "n=%d,act=errno:5;n=%d,act=errno:28" % (a, b), "double"))
    return inj


def judge(proj, rec, box, cfg, built, expected, pre=None):
    v = []
    fired = [o for o in (rec.shim or []) if o["fired"]]
    fired_fail = [o for o in fired if o["fired"].startswith("errno") and o["fired"] != "errno:4" and fault.phase_of(o) in UPDATE_PHASES]
    states, ids = fault.post_state(proj, box, expected)
    ntok = len(ids)
    known = set(os.path.join("proj", r) for r in list(proj.files) + list(proj.extra)) | {"proj/Breadlog.yaml", "proj/Breadlog.lock"} | set(pre or ())
    left = sorted(p for p, v in core.snapshot(box.root, content=False).items() if v[0] != "d" and p not in known)
    normal_exit = rec.rc is not None
    # "fails to create, write or move into place the new content of any file": judged by the outcome, not by the mere fact that
    # an operation failed - an implementation may recover (retry, fall back to another scratch location) and still update the file
    not_updated = sorted(rel for rel, s in states.items() if s == "original" and expected.get(rel))
    if fired_fail and rec.rc == 0 and not_updated:
        o = fired_fail[0]
        v.append(("update-failed-but-exit-0", {"op": (o["n"], o["kind"], os.path.basename(o["path"]), o["fired"]), "phase": fault.phase_of(o),
                                                "files_not_updated": not_updated[:3]}))
    if rec.rc == 0:
        pr = rec.inserted()
        if pr is not None and pr != ntok:
            v.append(("exit-0-but-printed-count-differs-from-disk", {"printed": pr, "tokens_on_disk": ntok}))
        fol = core.run_breadlog(built, box, cfg, check=True)
        if fol.rc != 0:
            v.append(("exit-0-but-following-check-fails", {"check_exit": fol.ended(), "missing": fol.missing()[:3]}))
    cleanup_hit = any(o["kind"] == "unlink" for o in fired)   # the injected fault hit the cleanup itself: nothing can be demanded
    if normal_exit and left and not cleanup_hit:
        v.append(("temporary-file-left-behind", {"files": left[:3], "exit": rec.rc}))
    return v, fired, fired_fail, states


def work(job):
    built, pi, proj, expected, label, rules, kind, exdev = job
    res = {"evaluations": 1, "nontrivial": [], "violations": [], "samples": [], "inconclusive": {}, "counters": {}}
    tmpdir = None
    xbox = None
    with core.Box(tag="c08") as box:
        cfg = proj.materialise(box)
        if kind == "env":
            # unusual temporary directories: the generic clauses apply (exit 0 => everything inserted; normal exit => nothing left)
            if label == "tmpdir-non-utf8-name":
                tmpdir = os.fsdecode(os.path.join(os.fsencode(box.root), b"scratch-\xff\xfe-dir"))
                os.makedirs(tmpdir)
            elif label == "tmpdir-missing":
                tmpdir = os.path.join(box.root, "no", "such", "dir")
            elif label == "tmpdir-is-a-file":
                tmpdir = os.path.join(box.root, "plainfile")
                open(tmpdir, "w").write("x")
            elif label == "tmpdir-with-spaces-and-unicode":
                tmpdir = os.path.join(box.root, "tmp dir ü 世界")
                os.makedirs(tmpdir)
            elif label == "tmpdir-is-the-source-dir":
                tmpdir = os.path.join(box.proj, "src")
            elif label == "tmpdir-empty-string":
                tmpdir = ""           # TMPDIR= (set but empty): std::env::temp_dir() is then the empty path, i.e. the current directory
            elif label == "tmpdir-relative":
                tmpdir = "reltmp"
                os.makedirs(os.path.join(box.proj, "reltmp"))
        if exdev:
            # a real cross-device scenario: TMPDIR on another filesystem than the sources
            other = "/var/tmp" if box.top.startswith("/dev/shm") else "/dev/shm"
            if not os.path.isdir(other):
                res["inconclusive"]["no second filesystem for the real EXDEV scenario"] = 1
                return res
            tmpdir = os.path.join(other, "vf-xdev-%d-%s" % (os.getpid(), os.path.basename(box.top)))
            os.makedirs(tmpdir)
        hook = None
        if kind == "concurrent-save":
            # another process (an editor, a formatter) saves one of the sources while breadlog is busy with it: the run is held at
            # the creation of that file's scratch copy (delay) and the file is rewritten meanwhile. No operation of breadlog fails.
            victim = label.split(":", 1)[1]

            def hook():
                pth = os.path.join(box.proj, victim)
                with open(pth, "ab") as f:
                    f.write(b"// saved by somebody else while breadlog was running\n")
        if kind == "scratch-vanishes":
            def hook():
                for f in os.listdir(box.tmp):
                    if f.startswith("breadlog-"):
                        try:
                            os.unlink(os.path.join(box.tmp, f))
                        except OSError:
                            pass
        try:
            pre = set(core.snapshot(box.root, content=False))       # what the harness itself put there
            rec = core.run_breadlog(built, box, cfg, rules=rules, shim=True, tmpdir=tmpdir, timeout=120, on_first_fire=hook)
            if exdev:
                box_tmp_left = sorted(os.listdir(tmpdir))
            jproj = proj
            if kind == "concurrent-save":
                # whichever version the tool kept (its own or the other process's), count its tokens against that version
                now = box.read(victim)
                saved = proj.files[victim] + b"// saved by somebody else while breadlog was running\n"
                if decompose(proj.files[victim], now) is None and decompose(saved, now) is not None:
                    jproj = fault.Project(dict(proj.files, **{victim: saved}), structured=proj.structured, use_cache=proj.use_cache,
                                          extra=proj.extra, label=proj.label)
            v, fired, fired_fail, states = judge(jproj, rec, box, cfg, built, expected, pre)
            if exdev:
                # leftovers are in the foreign TMPDIR; every rename must have failed for real
                real_fail = [o for o in rec.shim if o["kind"] == "rename" and o["errno"] == 18]
                res["counters"]["real_exdev_renames"] = len(real_fail)
                if real_fail and rec.rc == 0 and any(s == "original" and expected.get(rel) for rel, s in states.items()):
                    v.append(("update-failed-but-exit-0", {"op": "rename -> EXDEV (real cross-device TMPDIR)", "phase": "tmp-rename"}))
                if box_tmp_left and rec.rc is not None:
                    v.append(("temporary-file-left-behind", {"files": box_tmp_left[:3], "exit": rec.rc}))
                fired_fail = real_fail
                fired = real_fail
        finally:
            if tmpdir and os.path.isabs(tmpdir):
                import shutil
                shutil.rmtree(tmpdir, ignore_errors=True)
    if rec.timed_out:
        res["inconclusive"]["timeout"] = 1
        return res
    if rec.panicked():
        res["inconclusive"]["run-panicked (C17's business)"] = 1
        return res
    if kind == "env":
        fired = fired or [{"n": 0, "kind": "env", "fired": label, "path": tmpdir or ""}]
    if not fired and not exdev:
        res["inconclusive"]["injection did not fire"] = 1
        return res
    res["nontrivial"].append("%s|%s" % (proj.label, label))
    res["counters"]["kind_" + kind] = 1
    res["counters"]["exit_%s" % rec.ended()] = 1
    res["counters"]["failing_update_ops_fired"] = len(fired_fail)
    for clause, detail in v:
        ph = detail.get("phase", "")
        res["violations"].append({"signature": "C08.%s|%s%s" % (clause, kind, ("|" + ph) if ph else ""),
                                  "detail": dict(detail, injection=label, rules=rules, exit=rec.ended(), stdout_tail=rec.out[-300:], post_states=states),
                                  "case": {"project": pi, "label": label, "rules": rules, "kind": kind, "exdev": exdev}})
    if label.startswith("subset-rename") and pi == 0 and "+" not in label:
        res["samples"].append({"project": proj.label, "injection": label, "rules": rules, "exit": rec.ended(),
                               "fired": [(o["n"], o["kind"], o["fired"]) for o in fired][:4], "post_states": states,
                               "printed_inserted": rec.inserted()})
    return res


def main(tier):
    ck = frame.Check(PROP, tier, "fault_enumeration", replay_fn=replay_witness)
    built = core.build_repo()
    core.build_shim()
    ck.built = built
    rnd = core.rng_for("c08", ck.seed, tier)
    jobs = []
    for pi, proj in enumerate(projects(tier, ck.seed)):
        ops, after, rec, expected, lock = fault.clean_reference(built, proj)
        if rec.rc != 0:
            ck.inconc("clean reference run failed for " + proj.label)
            continue
        left = None
        for label, rules, kind in plan(proj, ops, tier, rnd):
            jobs.append((built, pi, proj, expected, label, rules, kind, False))
        jobs.append((built, pi, proj, expected, "real-exdev-tmpdir", None, "exdev", True))
        for envlabel in ("tmpdir-non-utf8-name", "tmpdir-missing", "tmpdir-is-a-file", "tmpdir-with-spaces-and-unicode",
                         "tmpdir-is-the-source-dir", "tmpdir-relative", "tmpdir-empty-string"):
            jobs.append((built, pi, proj, expected, envlabel, "n=999999,act=delay:0", "env", False))
        # faults on the lock reservation / final lock write (generic clauses only) and an update fault followed by a stop signal
        lockops = [o for o in ops if fault.phase_of(o).startswith("lock-") and o["kind"] in ("openw", "write", "rename")]
        for o in lockops[:12]:
            for e in ("EIO", "ENOSPC", "EACCES"):
                jobs.append((built, pi, proj, expected, "lock:%s@%d" % (e, o["n"]), "n=%d,act=errno:%d" % (o["n"], fault.ERRNO[e]), "lockfault", False))
        upd_ops = [o["n"] for o in ops if fault.phase_of(o) in UPDATE_PHASES]
        for k in upd_ops[:: max(1, len(upd_ops) // 6)][:8]:
            jobs.append((built, pi, proj, expected, "errno+signal@%d" % k, "n=%d,act=errno:5;n=%d,act=sig:15" % (k, k + 2), "fault+signal", False))
            jobs.append((built, pi, proj, expected, "eintr@%d" % k, "n=%d,act=errno:4" % k, "transient", False))
        # a concurrent save of one source while its scratch copy is being created (the n-th temp create is delayed by 400 ms)
        last_read = None
        nsave = 0
        for o in ops:
            if fault.phase_of(o) == "src-read-open":
                last_read = o["path"].split("/proj/", 1)[-1]
            elif fault.phase_of(o) == "tmp-create" and last_read in proj.files and nsave < 4:
                # the file in hand (read already, scratch copy about to be created) is the one that gets saved
                nsave += 1
                jobs.append((built, pi, proj, expected, "concurrent-save@%d:%s" % (o["n"], last_read), "n=%d,act=delay:400" % o["n"], "concurrent-save", False))
        # a temp-directory cleaner (or somebody's `rm`) removes the scratch copy just before it is moved into place: the rename
        # then fails for real (ENOENT) - a failure to move the new content into place like any other
        nv = 0
        for o in ops:
            if fault.phase_of(o) == "tmp-rename" and nv < 3:
                nv += 1
                jobs.append((built, pi, proj, expected, "scratch-vanishes-before-rename@%d" % o["n"], "n=%d,act=delay:400" % o["n"], "scratch-vanishes", False))
        # the clean run itself: normal exit must leave no temporary file
        jobs.append((built, pi, proj, expected, "no-fault", "n=999999,act=delay:0", "clean", False))
    for res in frame.pmap(work, jobs, chunksize=4):
        ck.absorb(res)
    # 'no-fault' rows never fire by construction: remove that inconclusive noise but keep their leftover check
    nf = ck.inconclusive.pop("injection did not fire", 0)
    ck.extra["no_fault_control_runs"] = nf
    ck.rule = ("per project: single errno faults (EIO/ENOSPC/EACCES/EXDEV) at every temp-create, temp-write and rename operation of the "
               "clean run, short writes (must succeed), persistent 'disk full from op k on', renames failing for every non-empty "
               "subset of <= 4 files, all temp creates failing, double faults, and a real cross-device TMPDIR (/var/tmp vs /dev/shm: "
               "genuine EXDEV); oracle: fired failure on an update op => exit != 0; exit 0 => printed count == tokens on disk and a "
               "follow-up --check passes; normal exit => TMPDIR empty; distinct_nontrivial = distinct (project, injection) that fired")
    ck.assumptions = ["a short write is not a failure (write_all continues)", "errors on reads / cleanup unlink / close are outside this property (C07 covers their atomicity)"]
    return ck.finish()


def replay_witness(w, ck=None, built=None):
    built = built or (ck.built if ck else None) or core.build_repo()
    core.build_shim()
    c = w["case"] if "case" in w else w["first"]["case"]
    ps = projects(w.get("tier", "quick"), w.get("seed", 0))
    proj = ps[c["project"]]
    ops, after, rec, expected, lock = fault.clean_reference(built, proj)
    r = work((built, c["project"], proj, expected, c["label"], c["rules"], c["kind"], c.get("exdev", False)))
    return bool(r["violations"])


def replay(path):
    failing = replay_witness(json.load(open(path)))
    print("replay %s: %s" % (path, "VIOLATION reproduced" if failing else "no violation"))
    if failing:
        print("VIOLATION property=%s replay=%s" % (PROP, path))
    return 1 if failing else 0
