"""C15 - only in-scope files are scanned; paths resolve against the config file."""
import json
import os

from .. import core, fault, frame, gen
from ..decomp import decompose

PROP = "C15"

STMT = b'fn f() {\n    info!("needs a reference");\n}\n'
EXT_LISTS = [["rs"], ["rs", "rsx"], ["RS"], ["bak", "Rs"], ["rs", "txt", "x"]]
SRC_FORMS = ["plain", "dot", "dotdot", "absolute", "nested", "trailing_slash", "symlink_dotdot"]
CFG_FORMS = ["absolute", "relative", "bare", "via_symlink"]
CWDS = ["config_dir", "parent", "unrelated"]


NON_UTF8_NAMES = [os.fsdecode(b"caf\xe9.rs"), os.fsdecode(b"dir-\xff/inner.rs"), os.fsdecode(b"sub/latin1-\xe4\xf6\xfc.rs"),
                  os.fsdecode(b"ok-name.r\xe9s")]


def is_utf8_name(p):
    try:
        p.encode("utf-8")
        return True
    except UnicodeEncodeError:
        return False


def ext_of(name):
    base = os.path.basename(name)
    if "." not in base[1:]:          # no extension, or only a leading dot
        return None
    return base.rsplit(".", 1)[1]


def build_layout(box, rnd, srcrel):
    """Creates the project; returns (regular files under source dir, all candidate paths)."""
    proj = box.proj
    src = os.path.join(proj, srcrel)
    names = ["a.rs", ".hidden.rs", "UPPER.RS", "c.rsx", "d.rs.bak", "noext", "e.Rs", "notes.txt", "two.dots.rs",
             "deep/x/y/z/b.rs", "deep/x/other.rsx", "dir.rs/inner.rs", "dir.rs/inner.txt", "sp ace/s p.rs", "uni-é/ü.rs",
             ".hidden_dir/inner.rs", ".hidden_dir/.also_hidden.rs", "proto.v2/client.rs", "conf.d/x.rs", "v1.0/y.rs", "a.b.c/z.rs",
             "trailingdot./w.rs", "..weird/q.rs", "pkg.rsx/inside.rs", "name.bak/deep/er.rs",
             "Events.rs", "events.rs", "API/mod.rs", "api/mod.rs", "api/MOD.rs", "socket.unix.rs", "api.v2.rs", "d1/d2/d3/d4/d5/d6/d7/d8/d9/d10/very_deep.rs", "target/debug/build.rs"]
    # extensions that are substrings / superstrings / permutations of the configured ones (passed in by the caller)
    for e in getattr(build_layout, "exts", []):
        near = {e[1:], e[:-1], e + e, e + "~", "a" + e, e[::-1], e.upper() if e.upper() != e else e.lower(), e + "."}
        for j, n_ in enumerate(sorted(x for x in near if x != e)):
            names.append("near/%s_%d.%s" % (e, j, n_))
    names.append("near/trailing_dot.")
    names.append("near/only.dots..")
    extra_depth = rnd.randrange(0, 3)
    for k in range(extra_depth):
        names.append("/".join("n%d" % j for j in range(k + 2)) + "/leaf%d.rs" % k)
    # another project's configuration and lock inside the tree (a vendored crate): ordinary out-of-scope files
    for n_, d_ in (("Breadlog.lock", core.lock_text(3)), ("vendor/Breadlog.yaml", core.make_config()), ("vendor/Breadlog.lock", core.lock_text(2)),
                   ("vendor/Breadlog.lock.tmp", core.lock_text(1))):
        box.write(os.path.join(srcrel, n_), d_)
    # in-scope files far below the source directory ("at any depth")
    for depth in (16, 17, 18, 33, 64, 120):
        names.append("/".join("p%d" % j for j in range(depth)) + "/at_depth_%d.rs" % depth)
    # directories that other tools conventionally leave out, each next to the marker such tools go by (a crate root with its build
    # directory, node_modules beside package.json, a git-ignored directory, a cache directory tag, a virtualenv): the scope rule
    # knows no such exception - "regular files below the source directory, at any depth"
    names += ["Cargo.toml", "target/debug/build/app-1a2b3c/out/generated.rs", "crates/tool/Cargo.toml", "crates/tool/src/lib.rs",
              "crates/tool/target/debug/build/tool-9f8e/out/bindings.rs", "crates/tool/target/CACHEDIR.TAG",
              "web/package.json", "web/node_modules/pkg/index.rs", ".git/HEAD", ".git/hooks/sample.rs",
              ".gitignore", ".ignore", "ignored_by_git/gen.rs", "build/CACHEDIR.TAG", "build/cached.rs", "venv/pyvenv.cfg", "venv/lib/x.rs"]
    # permission bits are not part of the scope rule
    modes = {"ro444.rs": 0o444, "ro400.rs": 0o400, "exec755.rs": 0o755, "rodir/inner_of_readonly_dir.rs": 0o444, "ro_notes.txt": 0o444}
    names += list(modes)
    # names that are not valid UTF-8 (a Latin-1 file name on a UTF-8 system): regular files below the source directory all the same
    names += NON_UTF8_NAMES
    for n in names:
        box.write(os.path.join(srcrel, n), b"ignored_by_git/\n/build\ntarget/\n*.rs\n" if n in (".gitignore", ".ignore") else STMT)
    for n, m in modes.items():
        os.chmod(os.path.join(src, n), m)
    os.chmod(os.path.join(src, "rodir"), 0o555)
    # files outside the source dir
    box.write("outside_of_src.rs", STMT)
    box.write("other/o.rs", STMT)
    box.write("target.rs", STMT, base=box.outside)
    box.write("odir/in_linked_dir.rs", STMT, base=box.outside)
    # symlinks
    os.symlink(os.path.join(box.outside, "target.rs"), os.path.join(src, "link_out.rs"))
    os.symlink("a.rs", os.path.join(src, "link_in.rs"))
    os.symlink(os.path.join(box.outside, "odir"), os.path.join(src, "linkdir_out"))
    os.symlink("deep", os.path.join(src, "linkdir_in"))
    os.symlink("nonexistent.rs", os.path.join(src, "dangling.rs"))
    os.symlink(os.path.join(proj, "other"), os.path.join(src, "linkdir.rs"))
    # a regular in-scope file that has a second name (hard link) outside the source directory: editing the former must not
    # change what the latter shows
    os.link(os.path.join(src, "a.rs"), os.path.join(proj, "other", "second_name_of_a.rs"))
    return src, names


def work(job):
    built, seed, i = job
    rnd = core.rng_for("c15", seed, i)
    exts = EXT_LISTS[i % len(EXT_LISTS)]
    sform = SRC_FORMS[(i // len(EXT_LISTS)) % len(SRC_FORMS)]
    cform = CFG_FORMS[(i // (len(EXT_LISTS) * len(SRC_FORMS))) % len(CFG_FORMS)]
    cwdk = CWDS[(i // (len(EXT_LISTS) * len(SRC_FORMS) * len(CFG_FORMS))) % len(CWDS)]
    mode = "check" if rnd.random() < 0.35 else "edit"
    res = {"evaluations": 1, "nontrivial": [], "violations": [], "samples": [], "inconclusive": {}, "counters": {}}
    with core.Box(tag="c15") as box:
        srcrel = {"nested": "code/src", "symlink_dotdot": "realhome/src"}.get(sform, "src")
        build_layout.exts = exts
        src, names = build_layout(box, rnd, srcrel)
        os.makedirs(os.path.join(box.proj, "a"), exist_ok=True)
        wrap = None
        mnt_ext = None
        if i % 6 == 1:
            # a mount point inside the source tree: a directory of another file system (other st_dev) bind-mounted below
            # source_dir in a private mount namespace. Check mode only - replacing a file there from a TMPDIR on this file
            # system is a genuine cross-device rename, which is C08's subject.
            import shutil
            mnt_ext = "/var/tmp/vf-mnt-%d-%d-%d" % (os.getpid(), seed, i)
            shutil.rmtree(mnt_ext, ignore_errors=True)
            for rel in ("gen.rs", "pkg/deeper/mod.rs", "notes.txt"):
                os.makedirs(os.path.dirname(os.path.join(mnt_ext, rel)), exist_ok=True)
                with open(os.path.join(mnt_ext, rel), "wb") as f:
                    f.write(STMT)
            os.makedirs(os.path.join(src, "mnt"))
            names += ["mnt/gen.rs", "mnt/pkg/deeper/mod.rs", "mnt/notes.txt"]
            wrap = ["unshare", "-m", "sh", "-c", 'mount --bind "$1" "$2" || exit 97; shift 2; exec "$@"', "sh", mnt_ext, os.path.join(src, "mnt")]
            mode = "check"
        special = []
        if i % 6 == 3:
            # entries that are not regular files but carry a configured extension: a named pipe (nobody writes to it: opening it
            # for reading would block for ever) and a Unix socket
            import socket as _socket
            fifo = os.path.join(src, "events_pipe." + exts[0])
            os.mkfifo(fifo)
            sk = _socket.socket(_socket.AF_UNIX)
            sockp = os.path.join(src, "ctl_socket." + exts[0])
            try:
                sk.bind(sockp)
                special.append(sockp)
            except OSError:
                pass
            sk.close()
            special.append(fifo)
        if sform == "symlink_dotdot":
            # `lnk` is a symlink to a directory elsewhere: the operating system resolves lnk/.. to the parent of the link's
            # *target* (proj/realhome), not to the directory that holds the link; a src/ next to the link is a trap
            os.makedirs(os.path.join(box.proj, "realhome", "nest"), exist_ok=True)
            os.symlink(os.path.join("realhome", "nest"), os.path.join(box.proj, "lnk"))
            box.write("src/trap_next_to_the_link.rs", STMT)
        sd = {"plain": srcrel, "dot": "./" + srcrel, "dotdot": "a/../" + srcrel, "absolute": src, "nested": srcrel,
              "trailing_slash": srcrel + "/", "symlink_dotdot": "lnk/../src"}[sform]
        cfgp = box.write("Breadlog.yaml", core.make_config(source_dir=sd, extensions=exts))
        # the invocation directory
        unrelated = os.path.join(box.root, "elsewhere", "deep")
        os.makedirs(unrelated)
        # a trap: a src/ directory relative to the unrelated cwd and to the parent, which must never be used
        for trapbase in (unrelated, box.root):
            os.makedirs(os.path.join(trapbase, "src"), exist_ok=True)
            with open(os.path.join(trapbase, "src", "trap.rs"), "wb") as f:
                f.write(STMT)
        cwd = {"config_dir": box.proj, "parent": box.root, "unrelated": unrelated}[cwdk]
        if cform == "via_symlink":
            # the file named on the command line is a symbolic link to a configuration kept elsewhere; "the directory containing
            # the configuration file" is the directory of the path that was given (a src/ next to the link's target is a trap)
            store = os.path.join(box.proj, "cfgstore", "shared")
            os.makedirs(os.path.join(store, "src"))
            os.rename(cfgp, os.path.join(store, "real-config.yaml"))
            os.symlink(os.path.join("cfgstore", "shared", "real-config.yaml"), cfgp)
            with open(os.path.join(store, "src", "trap_next_to_the_link_target.rs"), "wb") as f:
                f.write(STMT)
            carg = cfgp if rnd.random() < 0.5 else os.path.relpath(cfgp, cwd)
        elif cform == "absolute":
            carg = cfgp
        elif cform == "relative":
            carg = os.path.relpath(cfgp, cwd)
            if cwdk == "config_dir":
                carg = "./Breadlog.yaml"
        else:
            if cwdk != "config_dir":
                cwd = box.proj         # a bare file name only makes sense from the config directory
                cwdk = "config_dir"
            carg = "Breadlog.yaml"
        before = core.snapshot(box.root)
        r = core.run_breadlog(built, box, cfgp, check=(mode == "check"), cwd=cwd, cfg_arg=carg, shim=True, wrap=wrap,
                              timeout=25 if special else 120)
        after = core.snapshot(box.root)
        if mnt_ext:
            import shutil
            shutil.rmtree(mnt_ext, ignore_errors=True)
            if r.rc == 97 or "unshare" in r.err:
                res["counters"]["mount_namespace_unavailable"] = 1
                return res
            res["counters"]["runs_with_a_mount_point_inside_source_dir"] = 1
        root = box.root
        proj = box.proj

        def real_rel(p):
            """sandbox-relative name of the file a path string denotes (directory part resolved the way the OS does)"""
            p = p if os.path.isabs(p) else os.path.join(cwd, p)
            return os.path.relpath(os.path.join(os.path.realpath(os.path.dirname(p)), os.path.basename(p)), os.path.realpath(root))
        opened_list = [real_rel(o["path"]) for o in (r.shim or []) if o["kind"] in ("openr", "openw") and o["path"].startswith(root + "/")]
        reported_list = [real_rel(path) for path, line, col in r.missing()] if mode == "check" else []
    special_opened = sorted(os.path.relpath(p_, root) for p_ in special
                            if any(o["path"] == p_ and o["kind"] in ("openr", "openw") for o in (r.shim or [])))
    if special_opened:
        res["violations"].append({"signature": "C15.non-regular-file-opened|%s" % mode,
                                  "detail": {"paths": special_opened, "ended": r.ended(), "timed_out": r.timed_out},
                                  "case": {"seed": seed, "i": i}})
        res["nontrivial"].append("%s|%s|%s|%s|%s|special" % ("+".join(exts), sform, cform, cwdk, mode))
        return res
    if special:
        res["counters"]["runs_with_pipe_and_socket_named_like_sources"] = 1
    if r.panicked() or r.timed_out:
        res["inconclusive"]["run-crashed (C17's business)"] = 1
        return res
    # model of the scope
    scope = set()
    for n in names:
        if ext_of(n) in exts:
            scope.add(os.path.normpath(os.path.join("proj", srcrel, n)))
    # in-scope files whose path is not valid UTF-8 are judged by a clause of their own (one signature per mode, independent of
    # the product coordinates), so that a defect confined to them cannot hide - or hide behind - anything else
    scope_nu = {p for p in scope if not is_utf8_name(p)}
    scope -= scope_nu
    diff = core.snap_diff(before, after, meta=False)
    v = []
    changed = {p for p, _ in diff}
    lock_rel = "proj/Breadlog.lock"
    for p, what in diff:
        if p == lock_rel and mode == "edit":
            continue
        if (p in scope or p in scope_nu) and what == "content" and mode == "edit":
            continue
        kind = "created" if what == "created" else "modified"
        where = "lock-in-wrong-place" if p.endswith("Breadlog.lock") else ("out-of-scope-path-" + kind)
        v.append((where, {"path": p, "what": what}))
    opened = set(opened_list)
    # the config file, the lock next to it (and its scratch name while it is being replaced) and TMPDIR are legitimately opened
    # (a scratch file the run creates itself - wherever it chooses to put it - did not exist before and is not "a file that was read";
    #  whether scratch files are cleaned up is C08's business, whether anything persists is covered by the snapshot diff above)
    read_out_of_scope = sorted(p for p in opened if p not in scope and p not in scope_nu and p in before and before[p][0] == "f"
                               and p not in ("proj/Breadlog.yaml", "proj/Breadlog.lock", "proj/cfgstore/shared/real-config.yaml"))
    if read_out_of_scope:
        v.append(("out-of-scope-file-read", {"paths": read_out_of_scope[:4]}))
    if scope:
        if mode == "check":
            reported = set(reported_list)
            if reported - scope:
                v.append(("out-of-scope-file-reported", {"paths": sorted(reported - scope)[:4]}))
            if scope - reported:
                v.append(("in-scope-file-not-reported", {"paths": sorted(scope - reported)[:4], "exit": r.ended()}))
            if r.rc == 0:
                v.append(("check-passed-with-missing-references-in-scope", {}))
        else:
            notedited = sorted(p for p in scope if p not in changed)
            if notedited:
                v.append(("in-scope-file-not-edited", {"paths": notedited[:4], "exit": r.ended(), "stdout": r.out[-300:]}))
            for p in scope & changed:
                t = decompose(before[p][6], after[p][6])
                if t is None or len(t) != 1:
                    v.append(("in-scope-file-not-edited-correctly", {"path": p}))
            if after.get(lock_rel, (None,))[0] != "f":
                v.append(("lock-not-next-to-config", {"locks": sorted(p for p in after if p.endswith("Breadlog.lock"))}))
    else:
        if r.rc == 0:
            v.append(("no-in-scope-files-but-exit-0", {}))
    nu_special = []
    if scope_nu and r.rc is not None:
        # check mode cannot name such a file faithfully on stdout; what can be observed is whether it was opened for reading (shim)
        # and, in edit mode, whether it received its reference
        ignored = sorted(p for p in scope_nu if p not in opened)
        unedited = sorted(p for p in scope_nu if mode == "edit" and p not in changed)
        if ignored or unedited:
            nu_special.append(("in-scope-file-with-non-UTF-8-name-ignored", {"never_opened": ignored, "not_edited": unedited}))
        for p in scope_nu & changed:
            t = decompose(before[p][6], after[p][6])
            if t is None or len(t) != 1:
                nu_special.append(("in-scope-file-with-non-UTF-8-name-not-edited-correctly", {"path": p}))
        res["counters"]["in_scope_files_with_non_utf8_names"] = len(scope_nu)
    res["nontrivial"].append("%s|%s|%s|%s|%s" % ("+".join(exts), sform, cform, cwdk, mode))
    res["counters"].update({"in_scope_files": len(scope), "paths_in_layout": len(before), "files_opened_observed": len(opened)})
    for clause, detail in v:
        res["violations"].append({"signature": "C15.%s|ext=%s|src=%s|cfg=%s|cwd=%s|%s" % (clause, "+".join(exts), sform, cform, cwdk, mode),
                                  "detail": dict(detail, exit=r.ended(), argv=r.argv[1:], cwd=cwd), "case": {"seed": seed, "i": i}})
    for clause, detail in nu_special:
        res["violations"].append({"signature": "C15.%s|%s" % (clause, mode), "detail": dict(detail, exit=r.ended(), extensions=exts),
                                  "case": {"seed": seed, "i": i}})
    if i < 2:
        res["samples"].append({"extensions": exts, "source_dir": sd, "config_arg": carg, "cwd": os.path.relpath(cwd, root), "mode": mode,
                               "in_scope": sorted(scope), "changed": sorted(changed), "opened": sorted(opened)[:12]})
    return res


def missing_src_work(job):
    """The configured source directory does not exist next to the configuration file, but a directory of that name exists where the
    command is run (and one level up): nothing there is in scope, so nothing may be read, reported or changed."""
    built, seed, i = job
    rnd = core.rng_for("c15miss", seed, i)
    res = {"evaluations": 1, "nontrivial": [], "violations": [], "samples": [], "inconclusive": {}, "counters": {}}
    mode = "check" if i % 2 else "edit"
    sd = rnd.choice(["src", "./src", "code/src", "src/"])
    with core.Box(tag="c15m") as box:
        cfgdir = os.path.join(box.proj, rnd.choice(["ci", "tools/logging", "config"]))
        os.makedirs(cfgdir)
        cfgp = os.path.join(cfgdir, "Breadlog.yaml")
        with open(cfgp, "w") as f:
            f.write(core.make_config(source_dir=sd))
        for base in (box.proj, box.root):
            p_ = os.path.join(base, sd.rstrip("/"), "lib.rs")
            os.makedirs(os.path.dirname(p_), exist_ok=True)
            with open(p_, "wb") as f:
                f.write(STMT)
        cwd = rnd.choice([box.proj, box.root])
        carg = rnd.choice([cfgp, os.path.relpath(cfgp, cwd)])
        before = core.snapshot(box.root)
        r = core.run_breadlog(built, box, cfgp, check=(mode == "check"), cwd=cwd, cfg_arg=carg, shim=True)
        after = core.snapshot(box.root)
        opened = sorted(os.path.relpath(o["path"], box.root) for o in (r.shim or []) if o["kind"] in ("openr", "openw") and o["path"].endswith(".rs"))
    if r.panicked() or r.timed_out:
        res["inconclusive"]["run-crashed (C17's business)"] = 1
        return res
    res["nontrivial"].append("missing-source-dir|%s|%s" % (sd, mode))
    res["counters"]["missing_source_dir_with_lookalike_in_cwd"] = 1
    diff = core.snap_diff(before, after, meta=False)
    v = []
    if diff:
        v.append(("out-of-scope-path-modified", {"diff": diff[:4]}))
    if opened:
        v.append(("out-of-scope-file-read", {"paths": opened[:4]}))
    if r.missing():
        v.append(("out-of-scope-file-reported", {"paths": [m[0] for m in r.missing()][:4]}))
    for clause, detail in v:
        res["violations"].append({"signature": "C15.%s|source-dir-missing-next-to-config|%s" % (clause, mode),
                                  "detail": dict(detail, exit=r.ended(), argv=r.argv[1:], cwd=cwd), "case": {"missing_src": [seed, i]}})
    return res


def unreadable_dir_work(job):
    """One directory below source_dir cannot be listed (opendir fails with EACCES / ENOENT / EIO / EMFILE-free errors, injected at the
    libc boundary - this sandbox runs as root, so permission bits alone would not do it). What lies in it cannot be judged; every
    in-scope file outside it still is in scope: read, reported under --check, edited otherwise."""
    built, seed, i = job
    rnd = core.rng_for("c15unr", seed, i)
    res = {"evaluations": 1, "nontrivial": [], "violations": [], "samples": [], "inconclusive": {}, "counters": {}}
    mode = "check" if i % 2 else "edit"
    en = ["EACCES", "ENOENT", "EIO", "EPERM"][(i // 2) % 4]
    dirs = ["a_first", "build_cache", "m_private", "n_next/deep/deeper", "vendor", "z_last", "Zcaps", "0digits"]
    rnd.shuffle(dirs)
    with core.Box(tag="c15u") as box:
        src = os.path.join(box.proj, "src")
        names = []
        for d in dirs:
            for fn in rnd.sample(["mod.rs", "lib.rs", "x.rs", "notes.txt"], rnd.choice([1, 2, 3])):
                names.append(d + "/" + fn)
        names += ["aa.rs", "main.rs", "zz.rs", "0.rs"]
        for n in names:
            p_ = os.path.join(src, n)
            os.makedirs(os.path.dirname(p_), exist_ok=True)
            with open(p_, "wb") as f:
                f.write(STMT)
        # the directory that cannot be listed: a top-level one, or one two levels down
        bad = rnd.choice([d.split("/")[0] for d in dirs] + ["n_next/deep"])
        os.makedirs(os.path.join(src, bad, "inner"), exist_ok=True)
        with open(os.path.join(src, bad, "inner", "hidden.rs"), "wb") as f:
            f.write(STMT)
        cfg = box.write("Breadlog.yaml", core.make_config(source_dir="src"))
        before = core.snapshot(box.root)
        r = core.run_breadlog(built, box, cfg, check=(mode == "check"), shim=True,
                              rules="kind=opendir,path~=/src/%s,act=errno:%d" % (bad, fault.ERRNO[en]))
        after = core.snapshot(box.root)
        fired = [o for o in (r.shim or []) if o.get("fired")]
        opened = {os.path.relpath(o["path"], box.root) for o in (r.shim or []) if o["kind"] in ("openr", "openw")}
        reported = {os.path.relpath(os.path.realpath(path), os.path.realpath(box.root)) for path, line, col in r.missing()} if mode == "check" else set()
    if r.panicked() or r.timed_out:
        res["inconclusive"]["run-crashed (C17's business)"] = 1
        return res
    if not fired:
        res["inconclusive"]["opendir fault did not fire"] = 1
        return res
    scope = {os.path.normpath(os.path.join("proj/src", n)) for n in names
             if n.endswith(".rs") and not n.startswith(bad + "/")}
    res["nontrivial"].append("unlistable-directory|%s|%s|%s" % (en, "nested" if "/" in bad else "top", mode))
    res["counters"]["runs_with_an_unlistable_directory"] = 1
    res["counters"]["in_scope_files_beside_an_unlistable_directory"] = len(scope)
    diff = core.snap_diff(before, after, meta=False)
    changed = {p for p, _ in diff}
    v = []
    never = sorted(p for p in scope if p not in opened)
    if never:
        v.append(("in-scope-file-not-read", {"paths": never[:4], "count": len(never)}))
    if mode == "check":
        if scope - reported:
            v.append(("in-scope-file-not-reported", {"paths": sorted(scope - reported)[:4], "count": len(scope - reported)}))
    elif r.rc == 0:
        notedited = sorted(p for p in scope if p not in changed)
        if notedited:
            v.append(("in-scope-file-not-edited", {"paths": notedited[:4], "count": len(notedited), "stdout": r.out[-300:]}))
    for p, what in diff:
        if p in scope or p == "proj/Breadlog.lock":
            continue
        v.append(("out-of-scope-path-modified", {"path": p, "what": what}))
    for clause, detail in v:
        res["violations"].append({"signature": "C15.%s|beside-an-unlistable-directory|%s" % (clause, mode),
                                  "detail": dict(detail, exit=r.ended(), errno=en, unlistable=bad), "case": {"unlistable": [seed, i]}})
    return res


def main(tier):
    ck = frame.Check(PROP, tier, "exploration", replay_fn=replay_witness)
    built = core.build_repo()
    core.build_shim()
    ck.built = built
    full = len(EXT_LISTS) * len(SRC_FORMS) * len(CFG_FORMS) * len(CWDS)
    n = full * 5 if tier == "quick" else full * 60
    for res in frame.pmap(work, [(built, ck.seed, i) for i in range(n)], chunksize=4):
        ck.absorb(res)
    for res in frame.pmap(missing_src_work, [(built, ck.seed, i) for i in range(40 if tier == "quick" else 400)], chunksize=4):
        ck.absorb(res)
    for res in frame.pmap(unreadable_dir_work, [(built, ck.seed, i) for i in range(32 if tier == "quick" else 400)], chunksize=4):
        ck.absorb(res)
    ck.extra["product"] = {"extension_lists": EXT_LISTS, "source_dir_forms": SRC_FORMS, "config_path_forms": CFG_FORMS, "cwds": CWDS}
    ck.exhaustive = True
    ck.rule = ("full product extension list x source_dir form x config path form x invocation cwd (%d points, exhaustive:true refers "
               "to it; thorough repeats it with fresh random depth and modes) over a layout with look-alike extensions (.RS .rsx "
               ".rs.bak .Rs none), hidden file, directory named dir.rs, spaces / non-ASCII names, symlinks to files and directories "
               "inside and outside (incl. dangling and one named *.rs), files outside source_dir, and trap src/ directories relative "
               "to the cwd; observables: snapshot diff of the whole sandbox, files opened (shim), reported paths, lock location; "
               "distinct_nontrivial = distinct (extensions, source_dir form, config form, cwd, mode)" % full)
    ck.assumptions = ["scope model: regular non-symlink files below source_dir whose text after the last dot equals a configured extension"]
    return ck.finish()


def replay_witness(w, ck=None, built=None):
    built = built or (ck.built if ck else None) or core.build_repo()
    core.build_shim()
    c = w["case"] if "case" in w else w["first"]["case"]
    if "unlistable" in c:
        return bool(unreadable_dir_work((built, c["unlistable"][0], c["unlistable"][1]))["violations"])
    if "missing_src" in c:
        return bool(missing_src_work((built, c["missing_src"][0], c["missing_src"][1]))["violations"])
    r = work((built, c["seed"], c["i"]))
    return bool(r["violations"])


def replay(path):
    failing = replay_witness(json.load(open(path)))
    print("replay %s: %s" % (path, "VIOLATION reproduced" if failing else "no violation"))
    if failing:
        print("VIOLATION property=%s replay=%s" % (PROP, path))
    return 1 if failing else 0
