"""C01 - newly assigned IDs are unique, in range, above existing ones (lock absent / disabled / consistent)."""
import json
import os

import re

from .. import ambient, core, fault, frame, gen, lab, trees
from ..decomp import decompose

PROP = "C01"
LOCKS = ["absent", "disabled_with_stale_lock", "consistent0", "consistent1", "consistent1000"]


def spec_for(i, seed, tier):
    rnd = core.rng_for("c01", seed, tier, i)
    idclass = trees.ID_CLASSES[i % len(trees.ID_CLASSES)]
    lock = LOCKS[(i // len(trees.ID_CLASSES)) % len(LOCKS)]
    structured = (i // (len(trees.ID_CLASSES) * len(LOCKS))) % 2 == 1
    nfiles = rnd.choice([1, 2, 3, 5, 8, 12])
    return dict(i=i, idclass=idclass, lock=lock, structured=structured, nfiles=nfiles,
                k=rnd.randrange(0, 5), cap=rnd.choice([None, 0, 1, 2, 3, 6]) if idclass == "near_max" else None)


def run_spec(built, seed, tier, spec):
    i = spec["i"]
    rnd = core.rng_for("c01tree", seed, tier, i)
    t = trees.gen_tree(rnd, nfiles=spec["nfiles"], stmts=(0, 14), structured=spec["structured"], idclass=spec["idclass"],
                       label="t%d" % i, nearmax_k=spec["k"], missing_cap=spec["cap"], directives=(i % 3 == 0),
                       complete_prob=0.2 if i % 4 == 1 else 0.0)
    mx = max(t.existing) if t.existing else 0
    use_cache = None
    lock_text = None
    lockval = None
    if spec["lock"] == "disabled_with_stale_lock":
        use_cache = False
        lockval = rnd.choice([1, 5, mx, max(1, mx - 3), 77])
        lock_text = core.lock_text(lockval)
    elif spec["lock"].startswith("consistent"):
        delta = int(spec["lock"][len("consistent"):])
        lockval = mx + 1 + delta
        if lockval > core.U32MAX:
            lockval = None      # cannot express a consistent lock: behave as absent
        else:
            lock_text = core.lock_text(lockval)
    cfg = core.make_config(structured=True if spec["structured"] else None, use_cache=use_cache)
    # ambient state (permission bits, mtimes, a stale Breadlog.lock.tmp, editor droppings) must not matter: same oracle
    amb = ambient.choose(rnd, t.files, p=0.4, mx=mx,
                         kinds=["stale_lock_tmp", "stale_lock_tmp", "ancestor_lock", "ancestor_lock", "ro_sources", "mtimes", "siblings", "mix"])
    spec["ambient"] = amb["kind"]
    with core.Box(tag="c01") as box:
        out = lab.run_tree(built, box, t.files, cfg, do_check=False, trace=False, lock=lock_text, ambient=amb)
    return t, out, mx, lockval


def judge(spec, t, out, mx, lockval):
    """-> (violations [(clause, detail)], info)"""
    v = []
    ed = out.edit
    if ed.panicked() or ed.timed_out:
        return None, {"crashed": True}
    ids = []
    for rel, fo in out.files.items():
        if fo.tokens is None:
            return None, {"c03": True}
        for tk in fo.tokens:
            ids.append((tk["id"], rel, tk["off"]))
    idvals = [x[0] for x in ids]
    existing = set(t.existing)
    lock_in_use = spec["lock"].startswith("consistent") and lockval is not None
    start = lockval if lock_in_use else (mx + 1 if mx else 1)
    if len(set(idvals)) != len(idvals):
        d = sorted(x for x in set(idvals) if idvals.count(x) > 1)
        v.append(("duplicate-among-inserted", {"ids": d[:5]}))
    clash = sorted(set(idvals) & existing)
    if clash:
        v.append(("collides-with-existing", {"ids": clash[:5]}))
    bad = [x for x in idvals if not (1 <= x <= core.U32MAX)]
    if bad:
        v.append(("out-of-range", {"ids": bad[:5]}))
    if not lock_in_use and existing and idvals and min(idvals) <= mx:
        v.append(("not-above-existing-max", {"min_inserted": min(idvals), "max_existing": mx}))
    exhausted = start + t.missing - 1 > core.U32MAX
    info = {"exhausted": exhausted, "inserted": len(idvals), "start": start}
    if exhausted and t.missing > 0:
        if ed.rc == 0:
            v.append(("range-exhausted-but-exit-0", {"start": start, "missing": t.missing, "inserted": len(idvals)}))
    return v, info


def work(job):
    built, seed, tier, spec = job
    t, out, mx, lockval = run_spec(built, seed, tier, spec)
    res = {"evaluations": 1, "nontrivial": [], "violations": [], "samples": [], "inconclusive": {}, "counters": {}}
    v, info = judge(spec, t, out, mx, lockval)
    if v is None:
        res["inconclusive"]["run-crashed (C17's business)" if info.get("crashed") else "prerequisite C03 failed (decomposition)"] = 1
        if info.get("crashed"):
            # an arithmetic-overflow panic is this property's own finding
            if "overflow" in out.edit.err:
                res["inconclusive"] = {}
                res["violations"].append({"signature": "C01.arithmetic-overflow-panic|%s|%s" % (spec["idclass"], spec["lock"]),
                                          "detail": {"stderr": out.edit.err[-300:], "spec": spec}, "case": {"spec": spec}})
        return res
    c = res["counters"]
    c["inserted_ids_checked"] = info["inserted"]
    c["trees_with_existing_and_2plus_insertions"] = int(bool(t.existing) and info["inserted"] >= 2)
    c["exhausted_range_cases"] = int(info["exhausted"] and t.missing > 0)
    c["boundary_cases"] = int(spec["idclass"] in ("near_max", "mid", "zero"))
    c["exit_nonzero"] = int(out.edit.rc != 0)
    c["ambient_" + spec.get("ambient", "plain")] = 1
    if (t.existing and info["inserted"] >= 2) or (info["exhausted"] and t.missing > 0):
        res["nontrivial"].append("%s|%s|%s|multi=%s|exh=%s" % (spec["idclass"], spec["lock"], spec["structured"],
                                                               spec["nfiles"] > 1, info["exhausted"]))
    for clause, detail in v:
        res["violations"].append({
            "signature": "C01.%s|id=%s|lock=%s|%s" % (clause, spec["idclass"], spec["lock"].rstrip("0123456789"),
                                                      "structured" if spec["structured"] else "unstructured"),
            "detail": dict(detail, spec=spec, existing=sorted(set(t.existing))[-5:], missing=t.missing,
                           stale_lock_tmp=out.amb["stale_lock_tmp"],
                           exit=out.edit.ended(), stdout_tail=out.edit.out[-300:]),
            "case": {"spec": spec}})
    if spec["i"] < 4:
        ids = sorted(tk["id"] for fo in out.files.values() for tk in (fo.tokens or []))
        res["samples"].append({"spec": spec, "existing_ids": sorted(set(t.existing))[:12], "missing": t.missing,
                               "inserted_ids": ids[:12], "exit": out.edit.ended(), "lock_after": out.lock_after})
    return res


def main(tier):
    ck = frame.Check(PROP, tier, "exploration", replay_fn=replay_witness)
    built = core.build_repo()
    ck.built = built
    n = 6000 if tier == "quick" else 60000
    jobs = [(built, ck.seed, tier, spec_for(i, ck.seed, tier)) for i in range(n)]
    for res in frame.pmap(work, jobs, chunksize=8):
        ck.absorb(res)
    bigjobs = [(built, ck.seed, i, nst, st, lm) for i, (nst, st, lm) in enumerate(
        [(3000, False, "absent"), (400, True, "disabled"), (900, False, "disabled")] + ([] if tier == "quick" else [(6000, False, "disabled"), (8000, True, "absent"), (150, False, "absent"), (1200, True, "absent")]))]
    for res in frame.pmap(bigfile_work, bigjobs):
        ck.absorb(res)
    fjobs = [(built, ck.seed, i, None) for i in range(60 if tier == "quick" else 900)]
    for res in frame.pmap(fault_work, fjobs):
        ck.absorb(res)
    if tier == "thorough":
        # overflow sanitizer: the ID-boundary workload again on a build with overflow-checks=on
        try:
            ovf = core.build_repo(profile="debug", overflow_checks=True)
            jobs2 = [(ovf, ck.seed, "ovf", spec_for(i, ck.seed, "ovf")) for i in range(1400)
                     if spec_for(i, ck.seed, "ovf")["idclass"] in ("near_max", "mid", "zero")]
            for res in frame.pmap(work, jobs2, chunksize=8):
                ck.absorb(res)
            ck.extra["overflow_checks_build_runs"] = len(jobs2)
        except core.Inconclusive as e:
            ck.inconc("overflow-checks build failed: %s" % str(e)[:100])
        # real-code corpora: IDs inserted into real code are unique and above the existing maximum
        rnd = core.rng_for("c01corp", ck.seed)
        shards, reg = trees.corpus_shards(rnd, 16, registry_n=600)
        ck.extra["registry_corpus"] = reg > 0
        for res in frame.pmap(corpus_work, [(built, lab_, files) for lab_, files in shards]):
            ck.absorb(res)
    ck.rule = ("generated trees cycling through ID-space class (none, {0}, dense, gaps, duplicates, 2^31/2^16 boundaries, "
               "u32::MAX-k) x lock state (absent, disabled with a stale lock present, consistent = max+1+{0,1,1000}) x style, "
               "1-12 files; one case = one edit run whose inserted IDs (from the insertion decomposition) are compared with "
               "the generator's record of existing IDs; distinct_nontrivial = distinct (id class, lock, style, multi-file, "
               "exhausted) among trees that had an existing ID and >= 2 insertions, or an exhausted range")
    ck.assumptions = ["generator ground truth for existing IDs (statements are canonical, hazard-free)",
                      "insertion decomposition (DESIGN 4.1) identifies inserted IDs",
                      "the last ID of the range may be refused (next-ID value must itself fit in u32): only start+missing-1 > MAX is required to fail"]
    return ck.finish()


def bigfile_work(job):
    """The existing IDs live in one very large file (thousands of statements, ~1 MB); a second, small file needs IDs.
    A size-dependent failure to take the large file into account would show as a collision."""
    built, seed, i, nst, structured, lockmode = job
    res = {"evaluations": 1, "nontrivial": [], "violations": [], "samples": [], "inconclusive": {}, "counters": {}}
    rnd = core.rng_for("c01big", seed, i)
    body = []
    code_per_stmt = max(0, (2600000 // nst) - 80) if nst <= 1200 else 0     # "code-heavy" variant: megabytes of ordinary code
    for k in range(1, nst + 1):
        pad = "padding " * rnd.randrange(0, 30)
        filler = []
        while code_per_stmt and sum(len(x) for x in filler) < code_per_stmt:
            filler.append("    let v_%d = compute(a_%d, b) + %d; if v_%d > limit { counter += 1; } // ordinary line\n" % (k, k, k % 97, k))
        body.append("".join(filler))
        if structured:
            body.append('    info!(ref = %d, n = %d; "existing %d %s");\n' % (k, k, k, pad))
        else:
            body.append('    info!("[ref: %d] existing %d %s");\n' % (k, k, pad))
    files = {"src/generated/big.rs": ("fn big() {\n" + "".join(body) + "}\n").encode(),
             "src/small.rs": b'fn small() {\n    warn!("needs one");\n    error!(k = 1; "needs another");\n}\n'}
    with core.Box(tag="c01b") as box:
        cfg = core.make_config(structured=True if structured else None, use_cache=False if lockmode == "disabled" else None)
        out = lab.run_tree(built, box, files, cfg, do_check=False, trace=False, timeout=600)
    if out.edit.panicked() or out.edit.timed_out:
        res["inconclusive"]["run-crashed-or-timeout (C17's business)"] = 1
        return res
    ids = []
    for fo in out.files.values():
        if fo.tokens is None:
            res["inconclusive"]["prerequisite C03 failed (decomposition)"] = 1
            return res
        ids += [t["id"] for t in fo.tokens]
    res["counters"]["bigfile_trees"] = 1
    res["counters"]["inserted_ids_checked"] = len(ids)
    res["nontrivial"].append("bigfile|%d|%s|%s" % (nst, structured, lockmode))
    bad = None
    if len(ids) != 2 and out.edit.rc == 0:
        bad = ("wrong-number-inserted", {"ids": ids})
    elif any(x <= nst for x in ids):
        bad = ("collides-with-existing", {"ids": ids, "max_existing": nst})
    elif len(set(ids)) != len(ids):
        bad = ("duplicate-among-inserted", {"ids": ids})
    if bad:
        res["violations"].append({"signature": "C01.%s|bigfile|%s" % (bad[0], "structured" if structured else "unstructured"),
                                  "detail": dict(bad[1], statements_in_big_file=nst, bytes=len(files["src/generated/big.rs"]), exit=out.edit.ended()),
                                  "case": {"bigfile": [nst, structured, lockmode]}})
    return res


RE_EXISTING = re.compile(rb"\[ref: ([0-9]{1,10})\]|\bref = ([0-9]{1,10})\b")


def fault_work(job):
    """IDs written by a run in which one file failed: an I/O error at the k-th operation on a scratch file (every write,
    create, close and rename of the clean run is a candidate) makes that file fail; the files the same run does rewrite
    must still receive IDs that are unique and collide with nothing in the tree."""
    built, seed, i, only = job
    res = {"evaluations": 0, "nontrivial": [], "violations": [], "samples": [], "inconclusive": {}, "counters": {}}
    rnd = core.rng_for("c01fault", seed, i)
    structured = rnd.random() < 0.4
    proj = fault.small_project(rnd, nfiles=rnd.choice([3, 4, 6]), stmts=(2, 7), structured=structured,
                               use_cache=rnd.choice([None, False]), label="c01f%d" % i)
    # long runs of ordinary code between the statements, so that one file is written with several write(2) calls
    for rel in list(proj.files):
        lines = proj.files[rel].split(b"\n")
        proj.files[rel] = b"\n".join(l + (b"\n    // " + b"filler " * rnd.randrange(50, 3000) if b"!(" in l and rnd.random() < 0.6 else b"")
                                      for l in lines)
    existing = set()
    for d in proj.files.values():
        for m in RE_EXISTING.finditer(d):
            existing.add(int(m.group(1) or m.group(2)))
    ops, after, rec, exp, lock = fault.clean_reference(built, proj)
    cand = [o for o in ops if fault.phase_of(o).startswith("tmp-") or fault.phase_of(o) == "rename"]
    picks = rnd.sample(cand, min(len(cand), 14)) if only is None else [o for o in cand if o["n"] == only[0]]
    for o in picks:
        en = rnd.choice(["ENOSPC", "EIO", "EDQUOT", "EACCES"]) if only is None else only[1]
        with core.Box(tag="c01f") as box:
            cfg = proj.materialise(box)
            r = core.run_breadlog(built, box, cfg, rules="n=%d,act=errno:%d" % (o["n"], fault.ERRNO[en]), shim=True)
            res["evaluations"] += 1
            if r.panicked() or r.timed_out:
                res["inconclusive"]["run-crashed (C17's business)"] = res["inconclusive"].get("run-crashed (C17's business)", 0) + 1
                continue
            fired = [x for x in (r.shim or []) if x["fired"]]
            ids = []
            ok = True
            rewritten = 0
            for rel, before in proj.files.items():
                now = box.read(rel)
                if now == before:
                    continue
                t = decompose(before, now)
                if t is None:
                    ok = False       # C07's business
                    break
                rewritten += 1
                ids += [x["id"] for x in t]
        if not ok:
            res["inconclusive"]["file torn by the fault (C07's business)"] = res["inconclusive"].get("file torn by the fault (C07's business)", 0) + 1
            continue
        res["counters"]["fault_runs"] = res["counters"].get("fault_runs", 0) + 1
        if fired and r.rc != 0 and rewritten:
            res["counters"]["fault_runs_failed_with_other_files_rewritten"] = res["counters"].get("fault_runs_failed_with_other_files_rewritten", 0) + 1
            res["nontrivial"].append("fault|%s|%s|%s" % (fault.phase_of(o), en, "s" if structured else "u"))
        clause = None
        if len(set(ids)) != len(ids):
            clause = "duplicate-among-inserted"
        elif set(ids) & existing:
            clause = "collides-with-existing"
        if clause:
            res["violations"].append({"signature": "C01.%s|after-%s-at-%s|%s" % (clause, en, fault.phase_of(o), "structured" if structured else "unstructured"),
                                      "detail": {"inserted_ids": sorted(ids), "existing": sorted(existing), "op": o, "exit": r.ended(),
                                                 "stdout_tail": r.out[-300:]},
                                      "case": {"fault": [i, o["n"], en]}})
    return res


def corpus_work(job):
    built, label, files = job
    res = {"evaluations": 1, "nontrivial": [], "violations": [], "samples": [], "inconclusive": {}, "counters": {}}
    with core.Box(tag="c01c") as box:
        cfg = core.make_config(use_cache=False)
        out = lab.run_tree(built, box, files, cfg, do_check=False, trace=True)
    if out.edit.panicked():
        res["inconclusive"]["run-crashed (C17's business)"] = 1
        return res
    existing = set()
    for t in (out.edit.trace or []):
        if "NextReference" in t["pass"]:
            for e in t["entries"]:
                if e["reference"] is not None:
                    existing.add(e["reference"])
    ids = []
    for fo in out.files.values():
        if fo.tokens is None:
            res["inconclusive"]["prerequisite C03 failed (decomposition)"] = 1
            return res
        ids += [t["id"] for t in fo.tokens]
    res["counters"]["corpus_files"] = len(files)
    res["counters"]["corpus_inserted_ids"] = len(ids)
    mx = max(existing) if existing else 0
    bad = None
    if len(set(ids)) != len(ids):
        bad = "duplicate-among-inserted"
    elif set(ids) & existing:
        bad = "collides-with-existing"
    elif ids and min(ids) <= mx:
        bad = "not-above-existing-max"
    if ids:
        res["nontrivial"].append("corpus|%s" % label)
    if bad:
        res["violations"].append({"signature": "C01.%s|corpus" % bad, "detail": {"shard": label, "ids": sorted(ids)[:10], "max": mx},
                                  "case": {"corpus": label}})
    return res


def replay_witness(w, ck=None, built=None):
    built = built or (ck.built if ck else None) or core.build_repo()
    c = w["case"] if "case" in w else w["first"]["case"]
    if "fault" in c:
        r = fault_work((built, w.get("seed", 0), c["fault"][0], (c["fault"][1], c["fault"][2])))
        return bool(r["violations"])
    if "spec" not in c:
        return False
    seed = w.get("seed", 0)
    tier = w.get("tier", "quick")
    r = work((built, seed, tier, c["spec"]))
    return bool(r["violations"])


def replay(path):
    failing = replay_witness(json.load(open(path)))
    print("replay %s: %s" % (path, "VIOLATION reproduced" if failing else "no violation"))
    if failing:
        print("VIOLATION property=%s replay=%s" % (PROP, path))
    return 1 if failing else 0
