"""C05 - check mode's verdict is exact and predicts what edit mode does."""
import json
import os

from .. import ambient, core, frame, gen, lab, trees

PROP = "C05"


def judge(out, files):
    """relational oracle between a --check run and an edit run on identical trees."""
    v = []
    ck, ed = out.check, out.edit
    rep_total = 0
    tok_total = 0
    for rel, fo in out.files.items():
        if fo.tokens is None:
            return None
        rep = sorted(fo.reported)
        ins = sorted(t["off"] for t in fo.tokens)
        rep_total += len(rep) + len(fo.reported_bad)
        tok_total += len(ins)
        if fo.reported_bad:
            v.append(("reported-location-outside-file", rel, {"locations": fo.reported_bad[:3]}))
        elif rep != ins:
            # the decomposition may be ambiguous by a repeated token: retry preferring late positions
            from ..decomp import decompose
            alt = decompose(fo.before, fo.after, prefer_late=True)
            if alt is not None and sorted(t["off"] for t in alt) == rep:
                continue
            only_rep = [o for o in rep if o not in ins]
            only_ins = [o for o in ins if o not in rep]
            d = {"reported_not_inserted": [core.line_col(fo.before, o) for o in only_rep[:3]],
                 "inserted_not_reported": [core.line_col(fo.before, o) for o in only_ins[:3]]}
            # classify: same count but shifted => position arithmetic
            clause = "locations-differ"
            if len(rep) == len(ins) and rep and all(abs(a - b) <= 4 for a, b in zip(rep, ins)):
                clause = "locations-shifted"
            v.append((clause, rel, d))
    total = ck.total_missing()
    inserted = ed.inserted()
    if total is None and ck.rc in (0, 2) and "Found" in ck.out:
        pass
    if total is not None and total != rep_total:
        v.append(("total-differs-from-reported-locations", "*", {"total": total, "locations": rep_total}))
    if total is not None and total != tok_total:
        v.append(("total-differs-from-insertions", "*", {"total": total, "inserted_tokens": tok_total}))
    if inserted is not None and inserted != tok_total:
        v.append(("printed-insert-count-differs", "*", {"printed": inserted, "inserted_tokens": tok_total}))
    if inserted is None and tok_total > 0 and ed.rc == 0:
        v.append(("printed-insert-count-missing", "*", {"inserted_tokens": tok_total}))
    if ck.rc == 0 and tok_total > 0:
        v.append(("check-passed-but-edit-inserted", "*", {"inserted_tokens": tok_total}))
    if ck.rc not in (0, None) and tok_total == 0 and ed.rc == 0:
        v.append(("check-failed-but-nothing-to-insert", "*", {"check_exit": ck.rc, "stdout": ck.out[-300:]}))
    return v


def work(job):
    built, kind, seed, i, payload = job
    res = {"evaluations": 2, "nontrivial": [], "violations": [], "samples": [], "inconclusive": {}, "counters": {}}
    rnd = core.rng_for("c05", seed, kind, i)
    structured = rnd.random() < 0.5
    truth_missing = None
    unreadable = False
    if kind == "gen":
        t = trees.gen_tree(rnd, nfiles=rnd.choice([1, 2, 3, 6]), stmts=(0, 20), structured=structured,
                           idclass=rnd.choice(["none", "dense", "gaps", "zero", "none"]), label="g%d" % i,
                           missing_cap=rnd.choice([None, None, 0, 1]), directives=rnd.random() < 0.3,
                           complete_prob=rnd.choice([0.0, 0.4, 0.7]))
        files = dict(t.files)
        truth_missing = t.missing
        if structured and rnd.random() < 0.5:
            # unusable ref values must be in neither set
            files["src/unusable.rs"] = ('fn u() {\n    info!(ref = some_id; "unusable one");\n    warn!(a = 1, ref = "x"; "unusable two");\n}\n').encode()
        if rnd.random() < 0.3:
            files["src/ignored.rs"] = b'fn g() {\n    // breadlog:ignore\n    info!("never mind");\n}\n'
        if rnd.random() < 0.25:
            files["src/notutf8.rs"] = b'fn bad() { info!("caf\xe9"); }\n'
            unreadable = True
    elif kind == "genmut":
        t = trees.gen_tree(rnd, nfiles=rnd.choice([1, 2]), stmts=(1, 20), structured=structured,
                           idclass=rnd.choice(["none", "dense"]), label="m%d" % i)
        files = {rel: trees.mutate(d, rnd) for rel, d in t.files.items()}
        files["src/keep.rs"] = b'fn keep() { info!("one readable file"); }\n'
    elif kind == "counts":
        # counters must not saturate or wrap: many statements in one file, many files, files without statements in between
        nst, nfi = payload
        files = {}
        for fi in range(nfi):
            body = "".join('    info!("f%d statement %d");\n' % (fi, k) if (k % 7) else '    info!("[ref: %d] has one");\n' % (1000 + k) for k in range(nst))
            files["src/many/f%04d.rs" % fi] = ("fn f%d() {\n%s}\n" % (fi, body)).encode()
            if fi % 5 == 0:
                files["src/many/empty%04d.rs" % fi] = b"// no statements here\n"
        structured = False
    elif kind == "exact":
        # tree-wide totals at powers of two (an 8-bit exit status, a u8 / u16 counter): per-file numbers of statements lacking a reference
        files = {}
        for fi, n in enumerate(payload):
            body = "".join('    info!("e%d statement %d");\n' % (fi, k) for k in range(n))
            files["src/exact/f%03d.rs" % fi] = ("fn f%d() {\n%s    warn!(\"[ref: %d] has one\");\n}\n" % (fi, body, 7000 + fi)).encode()
        truth_missing = sum(payload)
        structured = False
    elif kind == "bigcoords":
        # line numbers and columns beyond 16 bits: 70 000 lines before a statement, 70 000 characters (ASCII / multi-byte / tabs) before
        # a statement on its line
        eol = rnd.choice(["\n", "\r\n"])
        filler_line = rnd.choice(["", "// x", "let a = 1;"])
        many_lines = (filler_line + eol) * rnd.choice([65534, 65535, 65536, 70000])
        pad = rnd.choice(["/* " + "x" * 69990 + " */ ", "/* " + "é" * 40000 + " */ ", "\t" * 66000, "let s = \"" + "y" * 65530 + "\"; "])
        files = {"src/manylines.rs": (many_lines + '    info!("after many lines");' + eol + '    warn!(a = 1; "and one more");' + eol).encode(),
                 "src/longline.rs": ("fn l() {" + eol + pad + 'info!("far to the right"); error!("and further");' + eol + "}" + eol).encode()}
        structured = rnd.random() < 0.5
    elif kind == "nostatements":
        # readable in-scope files that hold no statement of a configured macro (a new crate, macros not used yet, everything ignored):
        # nothing lacks a reference, so --check passes and prints a total of 0
        variants = [b"fn main() {\n    println!(\"hello\");\n}\n", b"// nothing here\n", b"", b"fn f() {\n    // breadlog:ignore\n    info!(\"ignored\");\n}\n",
                    b"pub mod a;\npub mod b;\n", b"fn g() { debug!(\"not configured\"); tracing::info!(\"other module\"); }\n", b"/* info!(\"in a comment\") */\n"]
        files = {"src/n%d.rs" % k: rnd.choice(variants) for k in range(rnd.randrange(1, 5))}
        truth_missing = 0
        structured = rnd.random() < 0.5
    elif kind == "sameline":
        # several statements on one source line (match arms, if/else, closures): every one has its own column
        lines = []
        k = 0
        for li in range(rnd.randrange(3, 12)):
            parts = []
            for _ in range(rnd.choice([2, 2, 3, 5])):
                k += 1
                m = rnd.choice(["info", "warn", "log::error"])
                kv = rnd.choice(["", "", "a = 1; ", "user, b = x; "])
                ref = rnd.choice(["", "", "", "[ref: %d] " % (500 + k)])
                pre = rnd.choice(["", "if ok { ", "Some(v) => ", "|e| ", "é = 1; ", "\t"])
                post = rnd.choice([";", " }", ",", "; /* c */"])
                parts.append('%s%s!(%s"%sL%d statement %d on its line")%s' % (pre, m, kv, ref, li, k, post))
            lines.append("    " + " ".join(parts))
        files = {"src/sameline.rs": ("fn s() {\n" + rnd.choice(["\n", "\r\n"]).join(lines) + "\n}\n").encode()}
        structured = rnd.random() < 0.5
    elif kind == "crafted":
        from . import c17
        # (inputs carrying a reference at the top of the ID range would - correctly - make the edit run fail with "range
        #  exhausted"; C05 compares successful runs, so they are left to C01/C17)
        files = {"src/c%04d.rs" % k: d for k, d in enumerate(list(c17.CRAFTED)[payload::3]) if len(d) < 30000 and b"42949672" not in d}
        files["src/keep.rs"] = b'fn keep() { info!("one readable file"); }\n'
        structured = (i % 2 == 1)
    elif kind in ("corpus", "corpusmut"):
        label, files = payload
        if kind == "corpusmut":
            files = {rel: (trees.mutate(d, rnd) if rnd.random() < 0.6 else d) for rel, d in files.items()}
        structured = (i % 2 == 1)
    if kind in ("gen", "genmut", "corpus", "corpusmut", "sameline", "crafted") and files and rnd.random() < 0.3:
        # byte-identical copies of source files elsewhere in the tree (a vendored helper, a module stub copied to a sibling crate):
        # each copy is a file of its own, with its own locations and its own share of the total
        for rel in rnd.sample(sorted(files), min(len(files), rnd.choice([1, 1, 2]))):
            d_, b_ = os.path.split(rel)
            for cp in rnd.sample([os.path.join(d_, "copy_of_" + b_), os.path.join("src/vendor/helper", b_), os.path.join(d_, "zz_" + b_)], rnd.choice([1, 2])):
                files.setdefault(cp, files[rel])
        truth_missing = None
        res["counters"]["trees_with_byte_identical_files"] = 1
    with core.Box(tag="c05") as box:
        # the same configuration written redundantly (an extension or a macro listed twice) means the same
        red = rnd.random() < 0.25
        cfg = core.make_config(structured=True if structured else None, use_cache=False,
                               extensions=(rnd.choice([["rs", "rs"], ["rs", "tpl", "rs"], ["tpl", "rs", "rs", "rs"]]) if red else None),
                               macros=gen.DEFAULT_MACROS + ([("log", "debug")] if kind.startswith("corpus") else []) + ([gen.DEFAULT_MACROS[0]] if red else []))
        res["counters"]["redundant_configuration"] = int(red)
        amb = ambient.choose(rnd, files, p=0.3, kinds=["ro_sources", "ro_sources", "mtimes", "siblings", "mix"])
        # variables a developer shell or CI job commonly exports; none of them is part of the tool's interface
        envx = rnd.choice([None, None, None, {"RUST_LOG": rnd.choice(["warn", "error", "off", "debug", "trace", "breadlog=error", "nonsense"])},
                           {"NO_COLOR": "1", "TERM": "dumb"}, {"RUST_BACKTRACE": "full", "LANG": "C", "LC_ALL": "C"},
                           {"CLICOLOR_FORCE": "1", "TERM": "xterm-256color", "COLUMNS": "20"}, {"TZ": "Pacific/Kiritimati", "RUST_LOG_STYLE": "always"}])
        res["counters"]["runs_with_extra_environment"] = int(bool(envx))
        out = lab.run_tree(built, box, files, cfg, trace=False, timeout=300, ambient=amb, env_extra=envx)
    res["counters"]["ambient_" + amb["kind"]] = 1
    if out.check.panicked() or out.edit.panicked() or out.check.timed_out or out.edit.timed_out:
        res["inconclusive"]["run-crashed-or-timeout (C17's business)"] = 1
        return res
    v = judge(out, files)
    if v is None:
        res["inconclusive"]["prerequisite C03 failed (decomposition)"] = 1
        return res
    ntok = sum(len(fo.tokens) for fo in out.files.values())
    if out.check.total_missing() is None:
        if out.check.rc is not None and (ntok > 0 or out.check.rc != 0) and "Found" in out.check.out + out.check.err or envx:
            # the run ended normally, had something to say (or merely ran in another environment) and printed no total
            res["violations"].append({"signature": "C05.check-printed-no-total|%s%s" % ("structured" if structured else "unstructured", "|extra-environment" if envx else ""),
                                      "detail": {"check_exit": out.check.ended(), "inserted_by_edit": ntok, "environment": envx, "stdout_tail": out.check.out[-300:]},
                                      "case": {"files": {r: f.before for r, f in list(out.files.items())[:4]}, "structured": structured, "ambient": amb, "env": envx}})
            return res
        res["inconclusive"]["check output has no parsable total"] = 1
        return res
    if truth_missing is not None and not unreadable:
        extra = 0
        if out.check.total_missing() != truth_missing + extra:
            # generated truth: hazard-free canonical statements; a disagreement is a recognition problem (C10's
            # business), recorded here only as an observation
            res["counters"]["truth_total_disagreements"] = 1
    res["counters"].update({"locations_compared": ntok, "runs_" + kind: 1,
                            "trees_with_missing": int(ntok > 0), "trees_without_missing": int(ntok == 0),
                            "trees_with_unreadable_file": int(unreadable)})
    mb = any(any(b > 127 for b in fo.before[:t["off"]][-200:]) for fo in out.files.values() for t in (fo.tokens or [])[:2])
    res["nontrivial"].append("%s|%s|missing=%s|multibyte=%s|crlf=%s|files=%d" % (
        kind, "s" if structured else "u", min(ntok, 3), mb, any(b"\r\n" in d for d in files.values()), min(len(files), 4)))
    for clause, rel, detail in v:
        res["violations"].append({
            "signature": "C05.%s|%s" % (clause, "structured" if structured else "unstructured"),
            "detail": dict(detail, file=rel, kind=kind, check_exit=out.check.ended(), edit_exit=out.edit.ended()),
            "case": {"files": ({rel: out.files[rel].before} if rel != "*" else {r: f.before for r, f in list(out.files.items())[:8]}),
                     "structured": structured, "ambient": amb}})
    if i < 40 and kind == "gen":
        fo = next((f for f in out.files.values() if f.tokens), None)
        if fo:
            res.setdefault("samples" if i == 0 else "samples_fallback", []).append({"file": fo.rel, "reported(line,col)": [core.line_col(fo.before, o) for o in sorted(fo.reported)[:5]],
                                   "inserted(line,col)": [core.line_col(fo.before, t["off"]) for t in fo.tokens[:5]],
                                   "total": out.check.total_missing(), "printed_inserted": out.edit.inserted(),
                                   "check_exit": out.check.rc, "edit_exit": out.edit.rc})
    return res


def main(tier):
    ck = frame.Check(PROP, tier, "exploration", replay_fn=replay_witness)
    built = core.build_repo()
    ck.built = built
    rnd = core.rng_for("c05main", ck.seed, tier)
    quick = tier == "quick"
    jobs = [(built, "gen", ck.seed, i, None) for i in range(3000 if quick else 30000)]
    jobs += [(built, "genmut", ck.seed, i, None) for i in range(1500 if quick else 15000)]
    for i, (nst, nfi) in enumerate([(300, 1), (1, 300), (70, 40), (257, 3), (1100, 2)] + ([] if quick else [(4000, 1), (2, 3000), (66000 // 64, 64)])):
        jobs.append((built, "counts", ck.seed, i, (nst, nfi)))
    for i, per_file in enumerate([(100, 100, 56), (256,), (255, 1), (128, 128, 128, 128), (512,), (1, 254, 1), (1024,)] + ([] if quick else [(4096,), (2048, 2048)])):
        jobs.append((built, "exact", ck.seed, i, per_file))
    for i in range(200 if quick else 3000):
        jobs.append((built, "sameline", ck.seed, i, None))
    for i in range(6 if quick else 40):
        jobs.append((built, "bigcoords", ck.seed, i, None))
    for i in range(60 if quick else 600):
        jobs.append((built, "nostatements", ck.seed, i, None))
    for i in range(6):
        jobs.append((built, "crafted", ck.seed, i, i % 3))
    shards, reg = trees.corpus_shards(rnd, 16, registry_n=0 if quick else 1500)
    for i, sh in enumerate(shards):
        jobs.append((built, "corpus", ck.seed, i, sh))
        jobs.append((built, "corpusmut", ck.seed, i, sh))
    rnd.shuffle(jobs)
    for res in frame.pmap(work, jobs, chunksize=2):
        ck.absorb(res)
    ck.extra["registry_corpus"] = reg > 0
    ck.rule = ("two identical copies of one tree: --check on the first, edit on the second (same sandbox, check first - it does "
               "not modify, C04); reported (file,line,col) mapped to byte offsets by the harness's own line/column model and "
               "compared as multisets with the insertion offsets of the edit's decomposition; totals, printed count and exit "
               "statuses compared. Trees: generated (both styles, CRLF, multi-byte, unusable refs, ignored statements, a "
               "non-UTF-8 file next to readable ones), mutated, corpora. distinct_nontrivial = distinct (source, style, "
               "min(#missing,3), multibyte-before-insertion, crlf, #files)")
    ck.assumptions = ["line/column model of DESIGN 4.2 (1-based, columns in Unicode scalar values, \\n line ends)",
                      "pinned stdout phrases for locations, total and inserted count", "fault-free runs only (C08 owns faults)"]
    return ck.finish()


def replay_witness(w, ck=None, built=None):
    built = built or (ck.built if ck else None) or core.build_repo()
    c = w["case"] if "case" in w else w["first"]["case"]
    files = {rel: (bytes.fromhex(d["hex"]) if isinstance(d, dict) else d.encode("utf-8")) for rel, d in c["files"].items()}
    with core.Box(tag="c05r") as box:
        cfg = core.make_config(structured=True if c["structured"] else None, use_cache=False)
        out = lab.run_tree(built, box, files, cfg, trace=False, ambient=ambient.from_json(c.get("ambient")), env_extra=c.get("env"))
    v = judge(out, files)
    return bool(v) or out.check.total_missing() is None


def replay(path):
    failing = replay_witness(json.load(open(path)))
    print("replay %s: %s" % (path, "VIOLATION reproduced" if failing else "no violation"))
    if failing:
        print("VIOLATION property=%s replay=%s" % (PROP, path))
    return 1 if failing else 0
