"""C12 - a reference counts as present exactly when the message starts with a valid token."""
import itertools
import json
import re

from .. import core, frame, gen, lab

PROP = "C12"
SIGMA = ["[", "]", "r", "e", "f", ":", " ", "0", "1", "9", "٣", "x"]
MODEL = re.compile(r"^\[ref: ([0-9]{1,10})\]")
DOC_RE = re.compile(r"\[ref: ([0-9]{1,10})\]")
REST = "~tail"
PER_FILE = 1500


def model(msg):
    """Independent statement of the rule (DESIGN 4.4): -> int or None."""
    m = MODEL.match(msg)
    if not m:
        return None
    v = int(m.group(1))
    return v if v <= core.U32MAX else None


def shape(s):
    """signature class of a prefix: digits->0, letters kept."""
    out = []
    for ch in s:
        if ch.isdigit() and ch.isascii():
            out.append("0")
        elif ch.isdigit():
            out.append("D")
        else:
            out.append(ch)
    r = "".join(out)
    r = re.sub(r"0{3,}", lambda m: "0{%d}" % len(m.group(0)), r)
    return r[:40]


def prefixes(tier, rnd):
    """yield (class, message_text, wrap) ; wrap None or ('target'|'kv'|'arg') for ref-like text elsewhere."""
    L = 4 if tier == "quick" else 5
    for n in range(0, L + 1):
        for tup in itertools.product(SIGMA, repeat=n):
            w = "".join(tup)
            yield ("sigma-start", w + REST, None)
            yield ("sigma-stem", "[ref: " + w + REST, None)
    # single-character edits of valid tokens
    for base in ["[ref: 1]", "[ref: 4294967295]", "[ref: 0]", "[ref: 10]"]:
        for i in range(len(base) + 1):
            for c in SIGMA + ["R", "-", "+", "_", "\t", " ", "2", "5", "\u00a0", "\u2003", "\u0085", "٠", "０", "E", "F"]:
                yield ("edit-insert", base[:i] + c + base[i:] + " m", None)
            if i < len(base):
                yield ("edit-delete", base[:i] + base[i + 1:] + " m", None)
                for c in SIGMA + ["R", "(", "6", "\t", "\u00a0", "\u2003", "\x0b", "\x0c", "\n", "\r\n", "\\t", "\\n", "\\x20", "\\u{20}", "  ",
                                  "\u3000", "\u200b", "_", "-", "=", "{", "<", "０", "٥", ";", ","]:
                    yield ("edit-subst", base[:i] + c + base[i + 1:] + " m", None)
    # numeric boundaries
    nums = ["0", "1", "9", "10", "4294967294", "4294967295", "4294967296", "4294967300", "9999999999", "10000000000",
            "99999999999", "00000000001", "0000000001", "0000000000", "01", "007", "4294967295000", "١٢٣", "１２", "1e3",
            "0x10", "1_000", "-1", "+1", " 1", "1 ", "", "18446744073709551616", "2147483648", "2147483647"]
    for n in nums:
        yield ("numeric", "[ref: %s] m" % n, None)
        yield ("numeric-nospace", "[ref: %s]m" % n, None)
        yield ("numeric-only", "[ref: %s]" % n, None)
    for _ in range(200 if tier == "quick" else 5000):
        d = rnd.randrange(1, 13)
        n = "".join(rnd.choice("0123456789") for _ in range(d))
        yield ("numeric-random", "[ref: %s] m" % n, None)
    # the literal's *source text* starts with an escape sequence (or a line continuation), then a well-formed token: the
    # literal does not begin with "[ref: ", so no reference is present
    for lead in ["\\\n    ", "\\\n", "\\\r\n\t", "\\t", "\\n", "\\u{5b}ref: 5] ", "\\x5bref: 5] ", "\\\\", "\\\"", "\\0", "\\u{20}", "{}", "{{", "%s", "\n", "\t", "\r\n"]:
        for tok in ["[ref: 7] ", "[ref: 4294967295] ", "[ref: 0]"]:
            yield ("escape-led", lead + tok + "wrapped text", None)
    # literals that span several source lines (plain line breaks, CRLF, backslash continuations) with a token at the very start,
    # at the start of a later line, or indented on a later line: only the start of the literal counts
    for nl in ["\n", "\r\n", "\\\n", "\\\n        ", "\n\n", "\n\t"]:
        for tok in ["[ref: 7]", "[ref: 4294967295] ", "[ref: 0] "]:
            yield ("multiline-token-first", tok + " first line" + nl + "second line", None)
            yield ("multiline-token-first", tok + nl + "second line" + nl, None)
            yield ("multiline-token-later", "first line" + nl + tok + " later line", None)
            yield ("multiline-token-later", "known references:" + nl + tok + nl + "[ref: 12] another", None)
            yield ("multiline-token-later", nl + tok + " after a leading line break", None)
    # a `breadlog:no-kvp` directive in a project that is not in structured mode changes nothing: presence is decided by the message alone
    for msg in ["[ref: 2] under a directive", "[ref: 4294967295] top under a directive", "plain under a directive", "[ref:3] near miss under a directive",
                "[ref: 12]", ""]:
        for d in ["// breadlog:no-kvp", "/* BREADLOG:NO-KVP */", "//breadlog:no-kvp"]:
            yield ("nokvp-directive", msg + " " + d[:2], ("nokvp", d))
    # more brackets right after a valid token
    for tail in [" [db] pool ready", "[x]", " ] ]", " [ref: 9] second", "]", " [", "[]", " [a][b][c][d]"]:
        for tok in ["[ref: 5]", "[ref: 12]", "[ref: 4294967295]"]:
            yield ("brackets-after-token", tok + tail, None)
    # ref-like text elsewhere
    for tok in ["[ref: 5] ", "[ref: 4294967295]", "ref = 5; "]:
        yield ("elsewhere-later", "msg then " + tok + "later", None)
        yield ("elsewhere-target", "plain message", ("target", tok))
        yield ("elsewhere-kv", "plain message", ("kv", tok))
        yield ("elsewhere-arg", "plain {}", ("arg", tok))
        yield ("elsewhere-kvkey", "plain message", ("kvref", tok))


def stmt_text(msg, wrap, i):
    name = ["info", "log::warn", "error"][i % 3]
    if wrap is None:
        return '%s!("' % name, msg, '");'
    kind, tok = wrap
    if kind == "nokvp":
        return '%s\n    %s!("' % (tok, name), msg, '");'
    if kind == "target":
        return '%s!(target: "%s", "' % (name, tok), msg, '");'
    if kind == "kv":
        return '%s!(k = "%s"; "' % (name, tok), msg, '");'
    if kind == "kvref":
        return '%s!(ref = 5, note = "%s"; "' % (name, tok), msg, '");'
    return '%s!("' % name, msg, '", "%s");' % tok


def work(job):
    built, fileseed, cases, idbase = job[:4]
    lockv = job[4] if len(job) > 4 else None
    gf = gen.GenFile("\n")
    expect = []
    for i, (cls, msg, wrap) in enumerate(cases):
        a, m, b = stmt_text(msg, wrap, i)
        gf.raw("    " + a)
        it = gen.Item("stmt", m, cls=cls)
        gf.add(it)
        gf.raw(b + "\n")
        expect.append((it, model(m), cls, msg))
    files = {"src/f.rs": gf.data()}
    if idbase:
        files["src/base.rs"] = ('fn b() { info!("[ref: %d] existing"); }\n' % idbase).encode()
    with core.Box(tag="c12") as box:
        # (with a lock value: the cache is on and the lock is behind the tokens in the code - a lock kept from an older branch. Which
        # statements count as referenced does not depend on where the numbering starts.)
        out = lab.run_tree(built, box, files, core.make_config(use_cache=None if lockv else False), trace=True,
                           lock=core.lock_text(lockv) if lockv else None)
    fo = out.files["src/f.rs"]
    res = {"evaluations": 2, "nontrivial": [], "violations": [], "samples": [], "inconclusive": {}, "counters": {}}
    if out.check.panicked() or out.edit.panicked():
        res["inconclusive"]["run-crashed (C17's business)"] = 1
        return res
    if fo.tokens is None:
        # in these one-statement-per-line files an edit that is not a set of token insertions means that what was inserted is not a
        # reference token at all - this property's own subject
        res["violations"].append({"signature": "C12.inserted-text-is-not-a-reference-token",
                                  "detail": {"before_head": fo.before[:200], "after_head": (fo.after or b"")[:260]},
                                  "case": {"cases": [list(c) for c in cases[:40]], "idbase": idbase, "lock": lockv}})
        return res
    rep = set(fo.reported)
    tok = {t["off"]: t for t in fo.tokens}
    tr = {e["offset"]: e for e in (fo.trace_check or [])}
    hook = fo.trace_check is not None
    res["counters"]["statements"] = len(expect)
    res["counters"]["hook_entries"] = len(tr)
    for it, want, cls, msg in expect:
        o = it.start
        res["nontrivial"].append(msg)
        clause = None
        if want is None:
            res["counters"]["model_says_absent"] = res["counters"].get("model_says_absent", 0) + 1
            if o not in rep:
                clause = "absent-but-not-reported"
            elif o not in tok or tok[o]["style"] != "msg":
                clause = "absent-but-not-edited"
            elif hook and (o not in tr or tr[o]["reference"] is not None):
                clause = "absent-but-hook-reads-reference"
        else:
            res["counters"]["model_says_present"] = res["counters"].get("model_says_present", 0) + 1
            if o in rep or any(it.start <= r < it.end for r in rep):
                clause = "present-but-reported"
            elif any(it.start - 1 <= t < it.end for t in tok):
                clause = "present-but-edited"
            elif hook and (o not in tr or tr[o]["reference"] != want):
                clause = "present-but-hook-reads-%s" % ("nothing" if o not in tr else "other-number")
        if clause:
            res["violations"].append({"signature": "C12.%s|%s|%s" % (clause, cls.split("-")[0], shape(msg[:-len(REST)] if msg.endswith(REST) else msg)),
                                      "detail": {"message": msg, "class": cls, "model": want,
                                                 "hook": tr.get(o), "reported": o in rep, "token": tok.get(o)},
                                      "case": {"cases": [[cls, msg, None]] * (3 if cls.startswith("dup-") else 1), "idbase": idbase, "lock": lockv}})
    # every inserted token satisfies the rule and the documented regex
    after = fo.after
    for t in fo.tokens:
        res["counters"]["tokens_checked"] = res["counters"].get("tokens_checked", 0) + 1
        s = t["tok"].decode()
        m1 = model(s)
        m2 = DOC_RE.search(after[t["aoff"]:t["aoff"] + 40].decode("utf-8", "replace"))
        if m1 != t["id"] or not m2 or int(m2.group(1)) != t["id"]:
            res["violations"].append({"signature": "C12.inserted-token-invalid|%s" % shape(s),
                                      "detail": {"token": s, "id": t["id"]}, "case": {"cases": [], "idbase": idbase}})
    if fileseed.endswith("-0"):
        res["samples"] = [{"message": m, "class": c, "model": w, "reported": it.start in rep,
                           "inserted": tok.get(it.start, {}).get("tok"), "hook": tr.get(it.start)}
                          for it, w, c, m in expect[:3] + expect[-3:]]
    return res


def main(tier):
    ck = frame.Check(PROP, tier, "exploration", replay_fn=replay_witness)
    built = core.build_repo()
    ck.built = built
    rnd = core.rng_for("c12", ck.seed, tier)
    cases = list(prefixes(tier, rnd))
    # deduplicate messages, keep first class
    seen = set()
    uniq = []
    for c in cases:
        k = (c[1], c[2])
        if k not in seen:
            seen.add(k)
            uniq.append(c)
    rnd.shuffle(uniq)
    # statements that already carry a reference close to the top of the range would (correctly) make every edit
    # run on their file fail with "range exhausted": they live in files of their own, which hold no statement
    # needing a reference, so that the other files exercise the edit clauses.
    HIGH = 4290000000
    high = [c for c in uniq if (model(c[1]) or 0) > HIGH]
    low = [c for c in uniq if (model(c[1]) or 0) <= HIGH]
    jobs = []
    bases = [0, 0, 4290000001, 99, 0, 2147483646]
    for n, i in enumerate(range(0, len(low), PER_FILE)):
        jobs.append((built, "%d-%d" % (ck.seed, n), low[i:i + PER_FILE], bases[n % len(bases)]))
        if n % 3 == 1:
            jobs.append((built, "%d-%d-lock" % (ck.seed, n), low[i:i + PER_FILE], 0, [1, 3, 5, 42, 1000][(n // 3) % 5]))
    for n, i in enumerate(range(0, len(high), PER_FILE)):
        jobs.append((built, "%d-high%d" % (ck.seed, n), high[i:i + PER_FILE], 0))
    # the same literal several times in one file (a statement copied and pasted together with its token, or without one): the
    # verdict on a statement depends on its own message only, whatever precedes it in the file
    pool = [c for c in low if c[2] is None]
    for n in range(2 if tier == "quick" else 12):
        some = rnd.sample(pool, min(len(pool), 150)) + [("numeric", "[ref: %d] copied and pasted" % k, None) for k in (3, 4, 5)]
        present = [c for c in pool if model(c[1]) is not None]
        some += rnd.sample(present, min(len(present), 100))
        group = [("dup-" + c[0], c[1], c[2]) for c in some for _ in range(rnd.choice([2, 2, 3]))]
        rnd.shuffle(group)
        jobs.append((built, "%d-dup%d" % (ck.seed, n), group, 0))
    ck.extra["files"] = len(jobs)
    for res in frame.pmap(work, jobs):
        ck.absorb(res)
    L = 4 if tier == "quick" else 5
    ck.exhaustive = True
    ck.extra["sigma"] = SIGMA
    ck.extra["max_len"] = L
    ck.extra["space"] = "all strings of length <= %d over sigma, at message start and after the stem '[ref: '" % L
    ck.extra["hook_used"] = built.hooks
    ck.rule = ("bounded-exhaustive: every string w of length <= %d over the 12-symbol alphabet sigma placed at the start of "
               "the message and after '[ref: ' (exhaustive:true refers to this space), plus all single-character edits of "
               "four valid tokens, a numeric boundary list, random digit strings and ref-like text in other arguments; "
               "one case = one statement judged against an independent model of the rule in check report, edit "
               "decomposition and hook trace; distinct_nontrivial = distinct message texts" % L)
    ck.assumptions = ["independent model: ^\\[ref: ([0-9]{1,10})\\] and value <= 4294967295 (DESIGN 4.4)",
                      "hook trace gives the number Breadlog read (falls back to black-box clauses if the hook is absent)"]
    return ck.finish()


def replay_witness(w, ck=None, built=None):
    built = built or (ck.built if ck else None) or core.build_repo()
    c = w["case"] if "case" in w else w["first"]["case"]
    cases = [tuple(x[:2]) + (tuple(x[2]) if x[2] else None,) for x in c["cases"]]
    if not cases:
        return False
    r = work((built, "replay", cases, c.get("idbase", 0), c.get("lock")))
    return bool(r["violations"])


def replay(path):
    failing = replay_witness(json.load(open(path)))
    print("replay %s: %s" % (path, "VIOLATION reproduced" if failing else "no violation"))
    if failing:
        print("VIOLATION property=%s replay=%s" % (PROP, path))
    return 1 if failing else 0
