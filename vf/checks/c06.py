"""C06 - after a successful edit the tree is a fixpoint and every insertion round-trips."""
import json
import os

from .. import ambient, core, frame, gen, lab, trees
from ..decomp import decompose

PROP = "C06"


NEAR_GRAMMAR = [
    # argument forms of newer log releases and of other logging crates: the tool may leave them alone or handle them, but whatever
    # it inserts must round-trip like any other reference
    'info!(logger: audit_logger, "NG%d record written");', 'warn!(logger: self.logger, k = 1; "NG%d with a key");',
    'error!(logger: LOGGER, target: "net", "NG%d with logger and target");', 'info!(parent: &span, "NG%d tracing parent");',
    'warn!(name: "evt", target: "t", "NG%d tracing name");', 'info!(%%user, ?req; "NG%d sigil shorthand");',
    'error!(target = "t", "NG%d target with equals");', 'info!(Level::Info, "NG%d level first");',
    'warn!(target: TARGET_CONST, "NG%d constant target");', 'info!(key: 1, "NG%d colon key");',
    'info! { "NG%d braces" };', 'warn!["NG%d brackets"];', 'error!(target: "t", logger: l, "NG%d target then logger");',
]


def run_case(built, files, structured, macros, use_cache=None, lock=None, amb=None, nofile=None, links=None):
    with core.Box(tag="c06") as box:
        cfg_text = core.make_config(structured=True if structured else None, macros=macros, use_cache=use_cache)
        for rel, data in files.items():
            box.write(rel, data)
        cfg = box.write("Breadlog.yaml", cfg_text)
        for name, (target, data) in (links or {}).items():
            # a symbolic link with a configured extension inside the source directory, pointing at a regular file elsewhere that
            # lacks references: not in scope in either mode (C15), so it can stop neither the fixpoint nor the check after the edit
            tp = box.write(target, data)
            lp = os.path.join(box.proj, name)
            os.makedirs(os.path.dirname(lp), exist_ok=True)
            os.symlink(os.path.relpath(tp, os.path.dirname(lp)), lp)
        lockp = os.path.join(box.proj, "Breadlog.lock")
        if lock is not None:
            open(lockp, "w").write(lock)
        if amb:
            ambient.apply(box.proj, amb)
        e1 = core.run_breadlog(built, box, cfg, trace=True, timeout=300, nofile=nofile)
        after1 = {rel: box.read(rel) for rel in files}
        lock1 = core.read_lock(lockp)
        ck = core.run_breadlog(built, box, cfg, check=True, timeout=300)
        after_ck = {rel: box.read(rel) for rel in files}
        e2 = core.run_breadlog(built, box, cfg, trace=True, timeout=300)
        after2 = {rel: box.read(rel) for rel in files}
        lock2 = core.read_lock(lockp)
        proj = box.proj
    return dict(e1=e1, ck=ck, e2=e2, after1=after1, after2=after2, lock1=lock1, lock2=lock2, proj=proj, after_ck=after_ck)


def judge(files, r, built):
    v = []
    e1, ck, e2 = r["e1"], r["ck"], r["e2"]
    if e1.rc != 0:
        return "precondition", None
    toks = {}
    ntok = 0
    for rel, before in files.items():
        t = decompose(before, r["after1"][rel])
        if t is None:
            return "c03", None
        toks[rel] = t
        ntok += len(t)
    if ck.rc != 0:
        v.append(("check-fails-after-successful-edit", {"check_exit": ck.ended(), "missing": ck.missing()[:3],
                                                         "stdout": ck.out[-300:]}))
    changed = [rel for rel in files if r["after2"][rel] != r["after1"][rel]]
    if changed:
        d = decompose(r["after1"][changed[0]], r["after2"][changed[0]])
        v.append(("second-edit-changes-bytes", {"files": changed[:3],
                                                 "tokens": [(t["off"], t["tok"]) for t in (d or [])[:3]]}))
    if r["lock1"] != r["lock2"]:
        v.append(("lock-changed-by-idle-edit", {"after_first": r["lock1"], "after_second": r["lock2"]}))
    # read-back through the parser's own view (hook)
    readback = 0
    if built.hooks and e2.trace is not None:
        byfile = {}
        for t in e2.trace:
            if t["path"].startswith(r["proj"]):
                byfile.setdefault(os.path.relpath(t["path"], r["proj"]), {}).update({e["offset"]: e for e in t["entries"]})
        for rel, ts in toks.items():
            ent = byfile.get(rel, {})
            for t in ts:
                want_off = t["aoff"] if t["style"] == "msg" else t["aoff"] + len(b"ref = ")
                e = ent.get(want_off)
                readback += 1
                if e is None:
                    v.append(("inserted-reference-not-recognised-afterwards", {"file": rel, "token": t["tok"], "at": t["aoff"],
                                                                               "context": r["after1"][rel][max(0, t["aoff"] - 40):t["aoff"] + 50]}))
                    break
                if e["reference"] != t["id"]:
                    v.append(("inserted-reference-read-back-differently", {"file": rel, "token": t["tok"], "read": e["reference"]}))
                    break
    return v, {"tokens": ntok, "readback": readback}


def work(job):
    built, kind, seed, i, payload = job
    res = {"evaluations": 3, "nontrivial": [], "violations": [], "samples": [], "inconclusive": {}, "counters": {}}
    rnd = core.rng_for("c06", seed, kind, i)
    structured = rnd.random() < 0.5
    macros = gen.DEFAULT_MACROS
    use_cache = rnd.choice([None, None, True, False])
    lock = None
    if kind == "gen":
        t = trees.gen_tree(rnd, nfiles=rnd.choice([1, 2, 3, 5]), stmts=(1, 25), structured=structured,
                           idclass=rnd.choice(["none", "dense", "gaps", "zero", "mid", "high"]), label="g%d" % i,
                           directives=rnd.random() < 0.3, complete_prob=rnd.choice([0.0, 0.0, 0.5]))
        files = dict(t.files)
        if rnd.random() < 0.4:
            d = rnd.choice(["// breadlog:ignore", "/* breadlog:no-kvp */", "// BREADLOG:NO-KVP"])
            files["src/directives.rs"] = ("fn d() {\n    %s\n    info!(a = 1; \"with directive {}\", 1);\n    warn!(\"plain\");\n}\n" % d).encode()
        if structured and rnd.random() < 0.5:
            # statements that never receive an ID although they have none: unusable ref values, ignored statements
            files["src/unusable.rs"] = ('fn u() {\n    info!(ref = request_id; "unusable one");\n    warn!(a = 1, ref = "x"; "unusable two");\n'
                                        '    // breadlog:ignore\n    error!("ignored");\n}\n').encode()
        if rnd.random() < 0.4:
            # several statements lacking a reference on one source line (if/else, match arms)
            files["src/sameline.rs"] = ('fn s(v: bool) {\n    if v { info!("SL a") } else { warn!("SL b") }\n'
                                        '    match v { true => error!(k = 1; "SL c"), false => info!("SL d"), }\n    info!("SL e"); warn!("SL f"); error!("SL g");\n}\n').encode()
        if rnd.random() < 0.4:
            body = "".join("    %s\n" % (x % k) for k, x in enumerate(rnd.sample(NEAR_GRAMMAR, 5)))
            files["src/neargrammar.rs"] = ("fn ng() {\n%s    info!(\"NG ordinary\");\n}\n" % body).encode()
            res["counters"]["trees_with_near_grammar_statements"] = 1
        if use_cache is not False and rnd.random() < 0.3 and t.existing:
            lock = core.lock_text(max(t.existing) + 1 + rnd.choice([0, 5]))
        elif use_cache is not False and rnd.random() < 0.25 and t.existing:
            # a lock that is behind the code (kept from an older branch while statements with higher IDs were merged in): its value is
            # an ID some statement already carries, one below / above such an ID, or 1
            lock = core.lock_text(max(1, min(4294960000, rnd.choice(t.existing) + rnd.choice([0, 0, 0, 1, -1]))) if rnd.random() < 0.8 else 1)
            res["counters"]["trees_with_a_lock_behind_the_code"] = 1
    elif kind == "manyfiles":
        # many files updated by one run under a low descriptor limit (resources taken per file must be given back per file)
        files = {}
        for k in range(payload):
            files["src/m%02d/f%04d.rs" % (k % 7, k)] = ('fn f%d() {\n    info!("many files %d");\n%s}\n' % (k, k, '    warn!(a = 1; "second %d");\n' % k if k % 3 == 0 else "")).encode()
    elif kind == "complete":
        # every statement already carries a reference and the lock is absent or unusable: the idle edit run succeeds, so --check passes
        t = trees.gen_tree(rnd, nfiles=rnd.choice([1, 2, 4]), stmts=(1, 12), structured=structured, idclass=rnd.choice(["dense", "gaps", "mid"]),
                           label="c%d" % i, complete_prob=1.1)
        files = dict(t.files)
        if rnd.random() < 0.3:
            # nothing the tool looks at: macros not used yet, or every use ignored
            files = {"src/lib.rs": b"pub mod a;\n", "src/a.rs": b"fn a() {\n    println!(\"x\");\n    // breadlog:ignore\n    info!(\"ignored\");\n}\n"}
        use_cache = rnd.choice([None, None, True])
        lock = rnd.choice([None, None, "next_reference_id: [torn\n", "<<<<<<< HEAD\nnext_reference_id: 4\n=======\nnext_reference_id: 9\n>>>>>>> b\n", ""])
    elif kind == "corpus":
        label, files = payload
        structured = (i % 2 == 1)
        macros = gen.DEFAULT_MACROS + [("log", "debug"), ("log", "trace")]
    links = None
    if kind == "gen" and rnd.random() < 0.25:
        links = {"src/net/linked_retry.rs": ("common/retry.rs", b'pub fn retry() {\n    warn!("shared through a link, lacks a reference");\n}\n'),
                 "src/linked_dir_entry.rs": ("common/other.rs", b'pub fn other() {\n    info!(k = 1; "another one");\n}\n')}
        res["counters"]["trees_with_symlinked_sources"] = 1
    amb = ambient.choose(rnd, files, p=0.35)
    res["counters"]["ambient_" + amb["kind"]] = 1
    r = run_case(built, files, structured, macros, use_cache, lock, amb, nofile=(40 if kind == "manyfiles" else None), links=links)
    for x in (r["e1"], r["ck"], r["e2"]):
        if x.panicked() or x.timed_out:
            res["inconclusive"]["run-crashed-or-timeout (C17's business)"] = 1
            return res
    v, info = judge(files, r, built)
    if v == "precondition":
        res["counters"]["first_edit_failed_precondition_not_met"] = 1
        return res
    if v == "c03":
        res["inconclusive"]["prerequisite C03 failed (decomposition)"] = 1
        return res
    res["counters"].update({"tokens_round_tripped": info["readback"], "tokens_inserted": info["tokens"], "runs_" + kind: 1})
    if info["tokens"]:
        res["nontrivial"].append("%s|%s|cache=%s|lock=%s|n=%d" % (kind, "s" if structured else "u", use_cache, lock is not None,
                                                                 min(info["tokens"], 5)))
    for clause, detail in v:
        sig = "C06.%s|%s" % (clause, "structured" if structured else "unstructured")
        res["violations"].append({"signature": sig, "detail": dict(detail, kind=kind, use_cache=use_cache),
                                  "case": {"files": {k: files[k] for k in list(files)[:6]}, "structured": structured,
                                           "use_cache": use_cache, "lock": lock, "ambient": amb}})
    if i == 0 and kind == "gen":
        res["samples"].append({"files": sorted(files), "tokens": info["tokens"], "hook_readbacks": info["readback"],
                               "lock_after_first": r["lock1"], "lock_after_second": r["lock2"], "check_exit": r["ck"].rc})
    return res


def main(tier):
    ck = frame.Check(PROP, tier, "exploration", replay_fn=replay_witness)
    built = core.build_repo()
    ck.built = built
    rnd = core.rng_for("c06main", ck.seed, tier)
    quick = tier == "quick"
    jobs = [(built, "gen", ck.seed, i, None) for i in range(3000 if quick else 25000)]
    jobs += [(built, "complete", ck.seed, i, None) for i in range(300 if quick else 3000)]
    jobs += [(built, "manyfiles", ck.seed, i, n) for i, n in enumerate([120, 300] if quick else [120, 300, 1100, 2500])]
    shards, reg = trees.corpus_shards(rnd, 16, registry_n=0 if quick else 1500)
    for i, sh in enumerate(shards):
        jobs.append((built, "corpus", ck.seed, i, sh))
    rnd.shuffle(jobs)
    for res in frame.pmap(work, jobs, chunksize=2):
        ck.absorb(res)
    ck.extra["registry_corpus"] = reg > 0
    ck.extra["hook_used"] = built.hooks
    ck.rule = ("three runs per tree: edit, --check, edit; the second edit's parser trace (hook) must contain, for every token the "
               "first edit inserted, an entry at the token's position whose reference equals the inserted ID. Trees: generated "
               "statements in all layouts/both styles/targets/key-values/directives/pre-existing references, with cache on/off "
               "and optional consistent lock; corpora. distinct_nontrivial = distinct (source, style, cache, lock, min(#tokens,5))")
    ck.assumptions = ["generated statements are within what the log crate accepts syntactically (canonical space, DESIGN 4.3)",
                      "hook trace for the read-back clause; black-box clauses otherwise"]
    return ck.finish()


def replay_witness(w, ck=None, built=None):
    built = built or (ck.built if ck else None) or core.build_repo()
    c = w["case"] if "case" in w else w["first"]["case"]
    files = {rel: (bytes.fromhex(d["hex"]) if isinstance(d, dict) else d.encode("utf-8")) for rel, d in c["files"].items()}
    r = run_case(built, files, c["structured"], gen.DEFAULT_MACROS + [("log", "debug"), ("log", "trace")], c.get("use_cache"), c.get("lock"),
                 ambient.from_json(c.get("ambient")))
    v, _ = judge(files, r, built)
    return bool(v) and v not in ("precondition", "c03")


def replay(path):
    failing = replay_witness(json.load(open(path)))
    print("replay %s: %s" % (path, "VIOLATION reproduced" if failing else "no violation"))
    if failing:
        print("VIOLATION property=%s replay=%s" % (PROP, path))
    return 1 if failing else 0
