"""C02 - an ID once assigned is never assigned again (lock-file invariant over histories)."""
import json
import os
import time
import re
import shutil
import signal

from .. import core, frame, fault

PROP = "C02"
RE_MARK = re.compile(rb"\bS(\d+)_")
RE_ID_MSG = re.compile(rb'"\[ref: (\d+)\] ')
RE_ID_KV = re.compile(rb"[(,] ?ref = (\d+)[;,] ")


def stmt_line(marker, structured, rnd_bits):
    """One uniquely marked statement (possibly with a directive line above it). Kinds that never receive an ID (ignored,
    unusable ref) and kinds that receive it in the other style (no-kvp) are mixed in: they change how many IDs a file needs."""
    macro = ["info", "warn", "log::error"][rnd_bits % 3]
    kv = ["", "k = 1; ", "user = id, n = 2; ", "user, n:? = 2; "][(rnd_bits // 3) % 4]
    kind = (rnd_bits // 12) % 10
    if kind == 0:
        return ('    // breadlog:ignore\n    %s!(%s"S%d_ never referenced %d");\n' % (macro, kv, marker, rnd_bits % 97)).encode()
    if kind == 1 and structured:
        return ('    %s!(ref = some_id, k = 1; "S%d_ unusable reference %d");\n' % (macro, marker, rnd_bits % 97)).encode()
    if kind == 2 and structured:
        return ('    /* breadlog:no-kvp */\n    %s!(%s"S%d_ reference kept in the message %d");\n' % (macro, kv, marker, rnd_bits % 97)).encode()
    if kind == 3:
        return ('    %s!(target: "t//x", %s"S%d_ with target %d");\n' % (macro, kv, marker, rnd_bits % 97)).encode()
    return ('    %s!(%s"S%d_ message %d");\n' % (macro, kv, marker, rnd_bits % 97)).encode()


def gen_history(rnd, nact):
    """A history is a list of explicit, replayable actions."""
    acts = []
    if rnd.random() < 0.1:
        # the project is near the top of the ID range (a lock written by an earlier life of the project): exhaustion is
        # reached within the history, with faults and kills around it
        acts.append(("seed_lock", core.U32MAX - rnd.randrange(0, 14)))
    if rnd.random() < 0.08:
        # Breadlog.lock is a symbolic link (a lock shared through a workspace directory)
        acts.append(("lock_symlink",))
    acts += [("add", 0, 0.0, rnd.randrange(1 << 30)), ("add", 0, 0.5, rnd.randrange(1 << 30))]
    for _ in range(nact):
        r = rnd.random()
        if r < 0.05:
            # many new statements in one file (a count threshold in how IDs are reserved would only show here)
            acts.append(("add_many", rnd.randrange(0, 4), rnd.choice([129, 150, 257, 300, 12, 20, 25, 95]), rnd.randrange(1 << 30)))
        elif r < 0.18:
            acts.append(("add", rnd.randrange(0, 4), rnd.random(), rnd.randrange(1 << 30)))
        elif r < 0.22:
            # a merge brings in a statement that already carries a reference at or just above the lock's current value (numbered on
            # another branch, or by hand) while the lock file keeps its value, together with new statements in the same file
            acts.append(("merge_in", rnd.randrange(0, 4), rnd.choice([0, 0, 0, 1, 1, 2, 3]), rnd.randrange(1 << 30)))
        elif r < 0.36:
            acts.append(("del_stmt", "highest" if rnd.random() < 0.6 else "random", rnd.random()))
        elif r < 0.40:
            acts.append(("del_file", rnd.randrange(0, 4)))
        elif r < 0.43:
            acts.append(("check",))
        elif r < 0.46:
            # the developer touches or edits the configuration file (it is now newer than the lock), or restores old timestamps
            acts.append(("touch", rnd.choice(["config_newer", "config_newer", "sources_newer", "all_old", "lock_old", "lock_readonly", "lock_readonly"])))
        elif r < 0.62:
            acts.append(("edit", "normal", 0, None))
        elif r < 0.72:
            acts.append(("edit", "errno", rnd.random(), rnd.choice(["EIO", "ENOSPC", "EACCES", "EXDEV"])))
        elif r < 0.73:
            # stdout is a pipe whose reader has gone away (`breadlog | head`): the k-th log line fails with EPIPE and the
            # process ends by a panic that unwinds - an abnormal end that is neither a kill nor a handled error
            acts.append(("edit", "epipe", rnd.random(), None))
        elif r < 0.76:
            acts.append(("edit", "signal", rnd.random(), rnd.choice(["TERM", "INT"])))
        elif r < 0.80:
            # every write(2) from operation k on transfers only part of what was asked for (a nearly full disk, a pipe-backed
            # or network file system): legal kernel behaviour that a correct writer absorbs, so the run counts as normal
            acts.append(("edit", "short", rnd.random() * 0.5, None))
        elif r < 0.94:
            acts.append(("edit", rnd.choice(["kill-before", "kill-after"]), rnd.random(), None))
        elif r < 0.97:
            acts.append(("commit",))
        else:
            acts.append(("revert_sources",))
    acts.append(("edit", "normal", 0, None))
    acts.append(("add", rnd.randrange(0, 4), rnd.random(), rnd.randrange(1 << 30)))
    acts.append(("edit", "normal", 0, None))
    return acts


class World:
    def __init__(self, built, structured):
        self.built = built
        self.structured = structured
        self.box = core.Box(tag="c02")
        self.files = {}          # rel -> list of lines (bytes)
        self.next_marker = 1
        self.ghost = {}          # id -> marker
        self.committed = None
        self.cfg = self.box.write("Breadlog.yaml", core.make_config(structured=True if structured else None))
        self.lockp = os.path.join(self.box.proj, "Breadlog.lock")
        self.log = []
        self.known_stale = False
        self.stale = False
        self.foreign = set()     # markers of statements whose reference the developer brought in: not IDs "the tool has written"

    def close(self):
        self.box.close()

    def flush(self):
        src = os.path.join(self.box.proj, "src")
        shutil.rmtree(src, ignore_errors=True)
        os.makedirs(src)
        for rel, lines in self.files.items():
            self.box.write(rel, b"".join(lines))

    def reload(self):
        for rel in list(self.files):
            data = self.box.read(rel)
            self.files[rel] = data.splitlines(keepends=True)

    def scan(self):
        """(marker, id) pairs on disk now; independent of Breadlog's parser (one statement per line, unique markers)."""
        pairs = []
        for rel in self.files:
            for line in self.box.read(rel).splitlines():
                m = RE_MARK.search(line)
                if not m or int(m.group(1)) in self.foreign:
                    continue
                # structured projects may hold both forms (breadlog:no-kvp keeps the reference in the message)
                i = (RE_ID_KV.search(line) or RE_ID_MSG.search(line)) if self.structured else RE_ID_MSG.search(line)
                if i:
                    pairs.append((int(m.group(1)), int(i.group(1))))
        return pairs


def run_history(built, acts, structured, record=False):
    """-> (violations [(clause, sigpart, detail, step)], stats)"""
    w = World(built, structured)
    v = []
    stats = {"runs": 0, "abnormal": {}, "del_highest_then_insert": 0, "max_ghost": 0, "steps": []}
    pending_del_highest = False
    try:
        for step, a in enumerate(acts):
            kind = a[0]
            note = None
            if kind == "lock_symlink":
                os.makedirs(os.path.join(w.box.proj, "shared"), exist_ok=True)
                if not os.path.lexists(w.lockp):
                    os.symlink(os.path.join("shared", "workspace.lock"), w.lockp)
                stats["lock_symlink"] = 1
            elif kind == "touch":
                now = time.time()
                if a[1] == "lock_readonly":
                    if os.path.exists(w.lockp) and not os.path.islink(w.lockp):
                        os.chmod(w.lockp, 0o444)
                    continue
                tgt = {"config_newer": [(w.cfg, now + 5)], "lock_old": [(w.lockp, now - 86400)],
                       "sources_newer": [(os.path.join(w.box.proj, rel), now + 5) for rel in w.files],
                       "all_old": [(w.cfg, now - 9 * 86400), (w.lockp, now - 8 * 86400)] + [(os.path.join(w.box.proj, rel), now - 7 * 86400) for rel in w.files]}[a[1]]
                for pth, t in tgt:
                    if os.path.exists(pth):
                        os.utime(pth, (t, t))
            elif kind == "seed_lock":
                with open(w.lockp, "w") as f:
                    f.write(core.lock_text(a[1]))
                stats["near_top"] = 1
            elif kind == "add":
                _, fi, pos, bits = a
                rel = "src/f%d.rs" % fi
                lines = w.files.setdefault(rel, [b"// file %d\n" % fi, b"fn f() {\n", b"}\n"])
                n = 1 + bits % 3
                for j in range(n):
                    at = 2 + int(pos * (len(lines) - 2))
                    at = min(max(2, at), len(lines) - 1)
                    for piece in reversed(stmt_line(w.next_marker, structured, bits >> (3 * j)).splitlines(keepends=True)):
                        lines.insert(at, piece)
                    w.next_marker += 1
                w.flush()
            elif kind == "merge_in":
                _, fi, off, bits = a
                lk = core.read_lock(w.lockp)
                if lk[0] != "ok" or lk[1] + off > core.U32MAX - 4:
                    continue
                rel = "src/f%d.rs" % fi
                lines = w.files.setdefault(rel, [b"// file %d\n" % fi, b"fn f() {\n", b"}\n"])
                x = lk[1] + off
                merged = ('    warn!(ref = %d; "S%d_ merged in with its reference");\n' if structured else '    warn!("[ref: %d] S%d_ merged in with its reference");\n') % (x, w.next_marker)
                w.foreign.add(w.next_marker)
                w.next_marker += 1
                at = min(len(lines) - 1, 2 + (bits >> 8) % max(1, len(lines) - 2))
                lines.insert(at, merged.encode())
                for j in range(1 + bits % 2):
                    pos = (len(lines) - 1) if (bits >> 4) % 2 else at
                    for piece in reversed(stmt_line(w.next_marker, structured, bits >> (3 * j + 1)).splitlines(keepends=True)):
                        lines.insert(pos, piece)
                    w.next_marker += 1
                w.flush()
                stats["merged_in"] = stats.get("merged_in", 0) + 1
            elif kind == "add_many":
                _, fi, n, bits = a
                rel = "src/f%d.rs" % fi
                lines = w.files.setdefault(rel, [b"// file %d\n" % fi, b"fn f() {\n", b"}\n"])
                for j in range(n):
                    lines.insert(len(lines) - 1, ('    info!("S%d_ bulk %d");\n' % (w.next_marker, j)).encode())
                    w.next_marker += 1
                w.flush()
            elif kind == "del_stmt":
                _, which, r = a
                pairs = w.scan()
                target = None
                if which == "highest" and pairs:
                    target = max(pairs, key=lambda p: p[1])[0]
                    pending_del_highest = True
                else:
                    allm = [int(m.group(1)) for lines in w.files.values() for l in lines for m in [RE_MARK.search(l)] if m]
                    if allm:
                        target = allm[int(r * len(allm)) % len(allm)]
                if target is not None:
                    tag = b"S%d_" % target
                    for rel in w.files:
                        ls = w.files[rel]
                        for idx in [n_ for n_, l in enumerate(ls) if tag in l][::-1]:
                            del ls[idx]
                            if idx > 0 and b"breadlog:" in ls[idx - 1].lower() and ls[idx - 1].strip().startswith((b"//", b"/*")):
                                del ls[idx - 1]      # the developer removes the statement together with its directive
                    w.flush()
            elif kind == "del_file":
                rel = "src/f%d.rs" % a[1]
                if rel in w.files and len(w.files) > 1:
                    del w.files[rel]
                    w.flush()
            elif kind == "commit":
                w.committed = {rel: list(l) for rel, l in w.files.items()}
            elif kind == "revert_sources":
                if w.committed is not None:
                    w.files = {rel: list(l) for rel, l in w.committed.items()}
                    w.flush()
            elif kind == "check":
                core.run_breadlog(built, w.box, w.cfg, check=True)
                stats["runs"] += 1
            elif kind == "edit":
                _, how, frac, arg = a
                if not w.files:
                    continue
                rules = None
                K = None
                if how != "normal":
                    # measure this run's operations on a scratch copy, then address op k by fraction (biased to the insertion pass)
                    with core.Box(tag="c02k") as sb:
                        shutil.copytree(w.box.proj, sb.proj, dirs_exist_ok=True, symlinks=True)
                        r0 = core.run_breadlog(built, sb, os.path.join(sb.proj, "Breadlog.yaml"), shim=True, stdio_ops=(how == "epipe"))
                        ops0 = r0.shim or []
                    K = len(ops0)
                    firstw = next((o["n"] for o in ops0 if o["kind"] == "openw"), 1)
                    lo = max(1, firstw - 2)
                    k = lo + int(frac * (K - lo + 1))
                    k = min(max(1, k), K)
                    if how == "errno":
                        cand = [o["n"] for o in ops0 if o["n"] >= k and o["kind"] in ("openw", "write", "rename")]
                        if not cand:
                            cand = [o["n"] for o in ops0 if o["kind"] in ("openw", "write", "rename")][-1:]
                        # the fault model is "an I/O failure while creating, writing or moving a file into place": when this run
                        # performs no such operation (nothing to insert, range exhausted) it simply runs without a fault - an
                        # error on *reading* the lock would make the tool fall back to scanning, which C16 allows and C02 does not cover
                        rules = ("n=%d,act=errno:%d" % (cand[0], fault.ERRNO[arg])) if cand else None
                        k = cand[0] if cand else k
                    elif how == "epipe":
                        cand = [o["n"] for o in ops0 if o["n"] >= k and o["kind"] == "stdio"] or [o["n"] for o in ops0 if o["kind"] == "stdio"][-1:]
                        k = cand[0] if cand else k
                        rules = "n=%d,kind=stdio,act=errno:%d" % (k, fault.ERRNO["EPIPE"])
                    elif how == "short":
                        rules = "from=%d,kind=write,act=short" % k
                    elif how == "signal":
                        rules = "n=%d,act=sig:%d" % (k, signal.SIGTERM if arg == "TERM" else signal.SIGINT)
                    else:
                        rules = "n=%d,act=%s" % (k, how)
                before_pairs = set(w.scan())
                rec = core.run_breadlog(built, w.box, w.cfg, rules=rules, shim=True, stdio_ops=(how == "epipe"))
                stats["runs"] += 1
                fired = [o for o in (rec.shim or []) if o["fired"]]
                # temp dir is cleaned between runs (leftovers of a killed run are not this property's business)
                for f in os.listdir(w.box.tmp):
                    os.unlink(os.path.join(w.box.tmp, f))
                w.reload()
                pairs = w.scan()
                new_pairs = set(pairs) - before_pairs
                if pending_del_highest and new_pairs:
                    stats["del_highest_then_insert"] += 1
                    pending_del_highest = False
                endclass = "normal" if how == "normal" or not fired else how
                if fired:
                    stats["abnormal"][how] = stats["abnormal"].get(how, 0) + 1
                phase = fault.phase_of(fired[0]) if fired else "-"
                # window classification for the known finding D8: kill between the first successful rename and the completed lock write
                in_window = False
                if fired and how in ("kill-before", "kill-after"):
                    ops = rec.shim
                    kf = fired[0]["n"]
                    ren = [o["n"] for o in ops if o["kind"] == "rename" and o["ret"] == 0]
                    lockw = [o["n"] for o in ops if fault.phase_of(o) == "lock-write" and o["ret"] is not None and o["ret"] > 0]
                    first_ren = ren[0] if ren else None
                    if first_ren is not None and (kf > first_ren or (kf == first_ren and how == "kill-after")):
                        if not lockw or (how == "kill-before" and kf <= lockw[0]):
                            in_window = True
                lock_io = bool(fired and how == "errno" and phase.startswith("lock-"))
                # ---- invariants
                for m, i in pairs:
                    g = w.ghost.get(i)
                    if g is not None and g != m:
                        v.append(("reuse", "after-known-stale-lock" if w.known_stale else "no-prior-stale-lock",
                                  {"id": i, "first_statement": "S%d" % g, "now_also": "S%d" % m, "step": step, "action": a}, step))
                for m, i in pairs:
                    w.ghost.setdefault(i, m)
                stats["max_ghost"] = max(stats["max_ghost"], len(w.ghost))
                lock = core.read_lock(w.lockp)
                stale_before = w.stale
                w.stale = bool(w.ghost) and (lock[0] != "ok" or lock[1] <= max(w.ghost))
                # the invariant is a state: it is reported for the run that broke it (transition ok -> stale), not for
                # every later run that merely inherits a stale lock
                if w.ghost and w.stale and not stale_before:
                    mx = max(w.ghost)
                    if True:
                        if in_window:
                            sig = "end=kill|window=first-rename..lock-write"
                            w.known_stale = True
                        elif lock_io:
                            sig = "end=errno|op=lock-file"
                            w.known_stale = True
                        else:
                            sig = "end=%s|phase=%s" % (endclass, phase)
                        v.append(("stale-lock", sig, {"lock": lock, "max_id_ever_written": mx, "step": step, "action": a,
                                                      "ended": rec.ended(), "fired": fired[:1]}, step))
                note = {"end": rec.ended(), "how": how, "k": (fired[0]["n"] if fired else None), "K": K, "phase": phase,
                        "new_ids": sorted(i for _, i in new_pairs)[:6], "lock": lock}
            if record:
                stats["steps"].append({"step": step, "action": list(a), "note": note})
    finally:
        w.close()
    return v, stats


def shrink(built, acts, structured, clause, sigpart, budget=40):
    cur = list(acts)
    i = 0
    tries = 0
    while i < len(cur) and tries < budget:
        trial = cur[:i] + cur[i + 1:]
        tries += 1
        v, _ = run_history(built, trial, structured)
        if any(c == clause and s == sigpart for c, s, _, _ in v):
            cur = trial
        else:
            i += 1
    return cur


def work(job):
    built, seed, i, nact = job
    rnd = core.rng_for("c02", seed, i)
    structured = rnd.random() < 0.4
    acts = gen_history(rnd, nact)
    v, stats = run_history(built, acts, structured, record=(i == 0))
    res = {"evaluations": 1, "nontrivial": [], "violations": [], "samples": [], "inconclusive": {}, "counters": {}}
    res["counters"]["runs"] = stats["runs"]
    res["counters"]["histories_with_delete_highest_then_insert"] = int(stats["del_highest_then_insert"] > 0)
    res["counters"]["max_ghost_size"] = 0
    res["counters"]["histories_near_top_of_id_range"] = stats.get("near_top", 0)
    res["counters"]["histories_with_symlinked_lock"] = stats.get("lock_symlink", 0)
    res["counters"]["merges_bringing_in_referenced_statements"] = stats.get("merged_in", 0)
    for k, n in stats["abnormal"].items():
        res["counters"]["abnormal_end_fired_" + k] = n
    if stats["del_highest_then_insert"] or stats["abnormal"]:
        res["nontrivial"].append("h%d|%s|del=%d|%s" % (i, "s" if structured else "u", stats["del_highest_then_insert"],
                                                        ",".join(sorted(stats["abnormal"]))))
    seen = set()
    for clause, sigpart, detail, step in v:
        sig = "C02.%s|%s" % (clause, sigpart)
        if sig in seen:
            continue
        seen.add(sig)
        minimal = acts
        known, _ = frame.load_findings(PROP)
        if sig not in known:
            minimal = shrink(built, acts, structured, clause, sigpart)
        res["violations"].append({"signature": sig, "detail": dict(detail, history_len=len(acts), minimal_history=minimal),
                                  "case": {"actions": minimal, "structured": structured}})
    if i == 0:
        res["samples"].append({"structured": structured, "history": stats["steps"][:14]})
    res["counters"]["ghost_ids_total"] = stats["max_ghost"]
    return res


def main(tier):
    ck = frame.Check(PROP, tier, "fault_enumeration", replay_fn=replay_witness)
    built = core.build_repo()
    core.build_shim()
    ck.built = built
    n = 1200 if tier == "quick" else 12000
    rnd = core.rng_for("c02main", ck.seed, tier)
    jobs = [(built, ck.seed, i, rnd.randrange(6, 15)) for i in range(n)]
    for res in frame.pmap(work, jobs, chunksize=2):
        ck.absorb(res)
    ck.rule = ("histories of 6-14 seeded actions over a project of 1-4 files with one uniquely marked statement per line: add "
               "statements, delete a statement (biased to the highest ID), delete a file, --check, edit, edit with errno at op k, edit "
               "with SIGTERM/SIGINT at op k, edit killed before/after op k (k addressed by fraction of that run's measured operation "
               "count, biased to the insertion pass), commit / revert sources keeping the lock; a checker-side ghost map id -> first "
               "marker is updated after every run; invariants: no id with two markers (reuse), and after every edit run lock > max id "
               "ever written (stale-lock); distinct_nontrivial = histories with a fired abnormal ending or a delete-highest followed by "
               "an inserting run")
    ck.assumptions = ["markers make the history unambiguous: the (marker,id) scan is a regex independent of Breadlog's parser",
                      "histories where the harness deletes or reverts the lock are not generated (property: lock in use and kept)"]
    return ck.finish(max_inconclusive_frac=0.05)


def replay_witness(w, ck=None, built=None):
    built = built or (ck.built if ck else None) or core.build_repo()
    core.build_shim()
    c = w["case"] if "case" in w else w["first"]["case"]
    acts = [tuple(a) for a in c["actions"]]
    v, _ = run_history(built, acts, c["structured"])
    want = w.get("signature")
    if want:
        return any("C02.%s|%s" % (cl, sp) == want for cl, sp, _, _ in v)
    return bool(v)


def replay(path):
    failing = replay_witness(json.load(open(path)))
    print("replay %s: %s" % (path, "VIOLATION reproduced" if failing else "no violation"))
    if failing:
        print("VIOLATION property=%s replay=%s" % (PROP, path))
    return 1 if failing else 0
