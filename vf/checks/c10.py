"""C10 - every canonical log statement is found and its reference placed correctly."""
import json

from .. import core, frame, gen, lab

PROP = "C10"
STMTS_PER_FILE = 40


def build_file(rows, fileseed, structured, eol, macros, hazard=False):
    """rows: list of feature dicts. Returns GenFile."""
    rnd = core.rng_for("c10file", fileseed)
    gf = gen.GenFile(eol)
    gf.raw("// generated %s%s" % (fileseed, eol))
    if rnd.random() < 0.5 and hazard != "spaced":
        # the configured names used through a foreign module first (tracing::info!, other::warn!): those are somebody else's macros,
        # and having seen them must not change what is made of the configured ones further down
        for _m, _n in macros:
            gf.raw('    zz_foreign::%s!("same name, other module");%s' % (_n, eol))
            if "::" not in _m and rnd.random() < 0.5:
                gf.raw('    %sx::%s!("look-alike module");%s' % (_m, _n, eol))
    for i, feat in enumerate(rows):
        marker = "S%s_%d" % (fileseed, i)
        pre, st, post = gen.build_stmt(feat, marker, rnd, macros=macros, eol=eol)
        last = (i == len(rows) - 1)
        if feat["post"] == "eof" and not last:
            post = ";"
        gf.add_stmt(pre, st, post)
        if not (last and feat["post"] == "eof"):
            gf.newline()
            if not hazard and rnd.random() < 0.3:
                gf.raw("    " + gen.filler(rnd, eol))
                gf.newline()
            if str(fileseed).endswith("bulk"):
                # megabytes of ordinary code between the statements: recognition must not depend on the size of the file
                for _ in range(160):
                    gf.raw("    let v_%d = compute(a_%d, b) + %d; if v_%d > limit { counter += 1; } // ordinary line%s" % (i, i, i % 97, i, eol))
    if hazard:
        gf.raw("/* end of generated file */" + eol)
    return gf


def judge(gf, fo, structured):
    """-> list of (clause, item) for statements that were not found / misplaced."""
    bad = []
    toks = fo.tokens or []
    tok_offs = {t["off"]: t for t in toks}
    for it in gf.stmts():
        st = it.stmt
        if structured:
            needs = True      # no statement here carries a kv ref
        else:
            needs = st.ref_msg is None
        if not needs:
            continue
        lo, hi = lab.expected_region(st, it.start, structured)
        rep = [o for o in fo.reported if lo <= o <= hi]
        if not rep:
            bad.append(("not-reported", it))
        if fo.tokens is None:
            continue  # C03's business; judged inconclusive by caller
        ins = [t for o, t in tok_offs.items() if lo <= o <= hi]
        want = "kv" if structured else "msg"
        if not ins:
            # was it inserted elsewhere inside the statement?
            inside = [t for o, t in tok_offs.items() if it.start <= o < it.end]
            bad.append(("misplaced" if inside else "not-edited", it))
        elif not any(t["style"] == want for t in ins):
            bad.append(("wrong-style", it))
    return bad


def run_rows(built, rows, fileseed, structured, eol, macros, hazard=False):
    gf = build_file(rows, fileseed, structured, eol, macros, hazard)
    with core.Box(tag="c10") as box:
        cfg = core.make_config(structured=structured if structured else None, macros=macros, use_cache=False)
        out = lab.run_tree(built, box, {"src/f.rs": gf.data()}, cfg, trace=False)
        fo = out.files["src/f.rs"]
        return gf, fo, out


def still_fails(built, feat, clause, structured, eol, macros):
    gf, fo, out = run_rows(built, [feat], "shrink", structured, eol, macros, hazard=True)
    return any(c == clause for c, _ in judge(gf, fo, structured))


def shrink(built, feat, clause, structured, eol, macros):
    """Reset features to neutral while the clause keeps failing on a single-statement file.
    Returns (minimal_feature_dict_of_non_neutral_values, alone:bool)."""
    if not still_fails(built, feat, clause, structured, eol, macros):
        return None, False
    cur = dict(feat)
    for k in sorted(cur):
        if k not in gen.NEUTRAL or cur[k] == gen.NEUTRAL[k]:
            continue
        trial = dict(cur)
        trial[k] = gen.NEUTRAL[k]
        if still_fails(built, trial, clause, structured, eol, macros):
            cur = trial
    if eol != "\n" and still_fails(built, cur, clause, structured, "\n", macros):
        eol = "\n"
    nn = {k: v for k, v in cur.items() if k in gen.NEUTRAL and v != gen.NEUTRAL[k]}
    if eol != "\n":
        nn["eol"] = "crlf"
    return nn, True


def sig_of(clause, structured, nn, macros=None):
    parts = ["%s=%s" % (k, nn[k]) for k in sorted(nn)]
    if macros is not None and "macro" in nn:
        parts.append("macros=" + "+".join("%s::%s" % tuple(m) for m in macros))
    return "C10.%s|%s|%s" % (clause, "structured" if structured else "unstructured", ",".join(parts) or "neutral")


def work(job):
    built, fileseed, rows, structured, eol, macros, hazard = job
    gf, fo, out = run_rows(built, rows, fileseed, structured, eol, macros, hazard)
    res = {"evaluations": 2, "nontrivial": [], "violations": [], "samples": [], "inconclusive": {}, "counters": {}}
    if out.check.panicked() or out.edit.panicked() or out.check.timed_out or out.edit.timed_out:
        res["inconclusive"]["run-crashed-or-timed-out (C17's business)"] = 1
        return res
    if fo.tokens is None:
        res["inconclusive"]["prerequisite C03 failed (decomposition)"] = 1
    bad = judge(gf, fo, structured)
    badset = {}
    for clause, it in bad:
        badset.setdefault(id(it), (it, []))[1].append(clause)
    res["counters"]["statements_asserted"] = len(gf.stmts())
    res["counters"]["statements_ok"] = len(gf.stmts()) - len(badset)
    for it in gf.stmts():
        f = it.stmt.feat
        res["nontrivial"].append(json.dumps([structured, eol == "\r\n", sorted(f.items())], sort_keys=True))
    if str(fileseed).endswith("bulk") and badset:
        # no per-statement reduction on the multi-megabyte file (it would take minutes): one finding for the file
        it, clauses = next(iter(badset.values()))
        small = still_fails(built, it.stmt.feat, clauses[0], structured, eol, macros)
        res["violations"].append({
            "signature": "C10.%s|%s|%s" % (clauses[0], "structured" if structured else "unstructured",
                                           "also-in-a-small-file" if small else "only-in-a-multi-megabyte-file"),
            "detail": {"statements_failing": len(badset), "statements_in_file": len(gf.stmts()), "file_bytes": len(gf.data()),
                       "first_statement": it.stmt.text, "check_stdout_tail": out.check.out[-300:]},
            "case": {"rows": [x.stmt.feat for x in gf.stmts()], "fileseed": fileseed, "structured": structured, "eol": eol,
                     "macros": macros, "hazard": False}})
        return res
    nshrunk = 0
    for it, clauses in badset.values():
        clause = clauses[0]
        nshrunk += 1
        if nshrunk > 4:
            # bounded effort per file: further failing statements are reported with their unreduced feature vector
            nn = {k: v for k, v in it.stmt.feat.items() if k in gen.NEUTRAL and v != gen.NEUTRAL[k]}
            res["violations"].append({"signature": sig_of(clause, structured, nn, macros) + "|unreduced",
                                      "detail": {"clauses": clauses, "statement": it.stmt.text, "features": it.stmt.feat, "structured": structured},
                                      "case": {"rows": [it.stmt.feat], "fileseed": fileseed, "structured": structured, "eol": eol, "macros": macros, "hazard": True}})
            continue
        nn, alone = shrink(built, it.stmt.feat, clause, structured, eol, macros)
        if alone:
            sig = sig_of(clause, structured, nn, macros)
        else:
            # cascade: fails only in the company of the other items of its file -> reduce the file
            rows2 = [x.stmt.feat for x in gf.stmts()]
            idx = gf.stmts().index(it)
            keep = list(range(len(rows2)))
            for j in list(keep):
                if j == idx:
                    continue
                trial = [k for k in keep if k != j]
                g2, f2, _ = run_rows(built, [rows2[k] for k in trial], "casc", structured, eol, macros, True)
                victim = g2.stmts()[trial.index(idx)]
                if any(c == clause and x is victim for c, x in judge(g2, f2, structured)):
                    keep = trial
            culprits = [k for k in keep if k != idx]
            desc = []
            for k in culprits[:3]:
                desc.append(",".join("%s=%s" % (a, b) for a, b in sorted(rows2[k].items())
                                     if a in gen.NEUTRAL and b != gen.NEUTRAL[a]))
            sig = "C10.%s|%s|cascade-from[%s]" % (clause, "structured" if structured else "unstructured", " + ".join(desc))
        res["violations"].append({
            "signature": sig,
            "detail": {"clauses": clauses, "statement": it.stmt.text, "features": it.stmt.feat,
                       "minimal_features": nn, "structured": structured,
                       "check_stdout_tail": out.check.out[-400:]},
            "case": {"rows": [it.stmt.feat] if alone else [x.stmt.feat for x in gf.stmts()], "fileseed": fileseed,
                     "structured": structured, "eol": eol, "macros": macros, "hazard": True if alone else hazard},
        })
    if fileseed.endswith("-0"):
        its = gf.stmts()[:2]
        res["samples"] = [{"statement": it.stmt.text, "features": it.stmt.feat, "structured": structured,
                           "expected_region": lab.expected_region(it.stmt, it.start, structured),
                           "reported_offsets": lab.in_range(fo.reported, it.start, it.end),
                           "inserted": [(t["off"], t["tok"]) for t in (fo.tokens or []) if it.start <= t["off"] < it.end]}
                          for it in its]
    return res


MACRO_SETS = [
    gen.DEFAULT_MACROS,
    [("log", "info")],
    [("tracing", "event_info"), ("log", "info"), ("log", "infox"), ("my_log", "w"), ("log", "_e")],
    # the same macro name under several modules, module names that are prefixes of each other
    [("log", "info"), ("tracing", "info"), ("log", "warn"), ("slog", "warn"), ("logger", "info")],
    [("a::b", "note"), ("a", "note"), ("b", "note"), ("a::b::c", "warn")],
    # names that are suffixes / prefixes / repetitions of each other, the shorter one listed first and listed last
    [("log", "warn"), ("app", "audit_warn"), ("app", "warn_audit"), ("log", "w"), ("log", "rn")],
    [("m", "ooo"), ("m", "oo"), ("m", "o"), ("n", "o"), ("m::n", "o")],
]


def plan(tier, seed):
    rnd = core.rng_for("c10plan", seed, tier)
    feats = dict(gen.FEATURES)
    feats["ref"] = ["none", "nearmiss"]   # statements that need a reference
    jobs_rows = []
    if tier == "quick":
        rows = list(gen.covering_rows(feats, 2, rnd, candidates=12))
        rows += [gen.random_feat(rnd) for _ in range(24000)]
        for r in rows:
            if r["ref"] == "valid":
                r["ref"] = "none"
    else:
        core3 = ["path", "target", "nkv", "msg", "lay", "pre", "post", "trail"]
        f3 = {k: feats[k] for k in core3}
        rows = []
        for r in gen.covering_rows(f3, 3, rnd, candidates=6):
            full = gen.random_feat(rnd)
            full.update(r)
            full["ref"] = rnd.choice(["none", "nearmiss"])
            rows.append(full)
        rows += list(gen.covering_rows(feats, 2, rnd, candidates=12))
        extra = [gen.random_feat(rnd) for _ in range(1000000)]
        for r in extra:
            if r["ref"] == "valid":
                r["ref"] = "none"
        rows += extra
    rnd.shuffle(rows)
    return rows, feats


def hazard_rows(rnd):
    """Dedicated small files for feature values named by open findings (DESIGN 6 'Cascades')."""
    out = []
    for dim, vals in gen.HAZARD.items():
        for v in vals:
            for _ in range(1):
                f = dict(gen.NEUTRAL)
                f[dim] = v
                out.append(f)
    return out


def main(tier):
    ck = frame.Check(PROP, tier, "exploration", replay_fn=replay_witness)
    built = core.build_repo()
    ck.built = built
    rows, feats = plan(tier, ck.seed)
    rnd = core.rng_for("c10jobs", ck.seed)
    jobs = []
    n = 0
    for i in range(0, len(rows), STMTS_PER_FILE):
        chunk = rows[i:i + STMTS_PER_FILE]
        structured = (n % 2 == 1)
        eol = "\r\n" if n % 5 == 4 else "\n"
        macros = MACRO_SETS[n % len(MACRO_SETS)]
        homog = False
        if n % 8 >= 6:
            # every invocation in this file has layout between the macro name and the `!`, and the file holds nothing else
            # (a per-file effect - a textual pre-filter, say - is masked by a single ordinary spelling anywhere in the file)
            chunk = [dict(r, bang=rnd.choice(gen.BANG_SPACED), msg=("plain" if r["msg"] == "macrotext" else r["msg"]),
                          pre=("indent" if r["pre"] == "stmt" else r["pre"])) for r in chunk]
            homog = "spaced"
        jobs.append((built, "%d-%d" % (ck.seed, n), chunk, structured, eol, macros, homog))
        n += 1
    for b, structured in enumerate((False, True)):
        bulk_rows = [dict(gen.random_feat(rnd), ref="none") for _ in range(160)]
        jobs.append((built, "%d-%dbulk" % (ck.seed, b), bulk_rows, structured, "\n", gen.DEFAULT_MACROS, False))
    hz = hazard_rows(rnd)
    for j, f in enumerate(hz):
        for structured in (False, True):
            jobs.append((built, "%d-hz%d%s" % (ck.seed, j, "s" if structured else "u"),
                         [dict(gen.NEUTRAL), f, dict(gen.NEUTRAL)], structured, "\n", gen.DEFAULT_MACROS, True))
    for res in frame.pmap(work, jobs):
        ck.absorb(res)
    req2, cov2 = gen.tuple_coverage(rows, feats, 2)
    ck.extra["feature_model"] = {k: len(v) for k, v in feats.items()}
    ck.extra["pairs_required"] = req2
    ck.extra["pairs_covered"] = cov2
    if tier == "thorough":
        core3 = ["path", "target", "nkv", "msg", "lay", "pre", "post", "trail"]
        r3, c3 = gen.tuple_coverage(rows, {k: feats[k] for k in core3}, 3)
        ck.extra["triples_required_core"] = r3
        ck.extra["triples_covered_core"] = c3
    ck.extra["files"] = len(jobs)
    ck.extra["hazard_files"] = 2 * len(hz)
    ck.rule = ("greedy t-way covering rows over the statement feature model + random rows, %d statements per file, "
               "alternating unstructured/structured, LF/CRLF and %d configured-macro sets; one case = one generated "
               "statement judged against check report and edit decomposition; distinct_nontrivial = distinct "
               "(style, eol, full feature vector) of asserted statements" % (STMTS_PER_FILE, len(MACRO_SETS)))
    ck.assumptions = ["generator ground truth for the canonical statement space of DESIGN 4.3",
                      "pinned stdout phrase 'Missing reference in file F, line L, column C'"]
    return ck.finish()


def replay_witness(w, ck=None, built=None):
    """Re-run a stored case; True if the clause still fails."""
    built = built or (ck.built if ck else None) or core.build_repo()
    c = w["case"] if "case" in w else w["first"]["case"]
    gf, fo, out = run_rows(built, c["rows"], c.get("fileseed", "w"), c["structured"], c["eol"],
                           [tuple(m) for m in c["macros"]], c.get("hazard", True))
    bad = judge(gf, fo, c["structured"])
    return bool(bad)


def replay(path):
    w = json.load(open(path))
    built = core.build_repo()
    failing = replay_witness(w, built=built)
    print("replay %s: %s" % (path, "VIOLATION reproduced" if failing else "no violation"))
    if failing:
        print("VIOLATION property=%s replay=%s" % (PROP, path))
    return 1 if failing else 0
