"""C09 - edits preserve program behaviour apart from the added reference (differential execution)."""
import glob
import json
import os
import re
import subprocess

from .. import core, frame, gen

PROP = "C09"
C09DIR = os.path.join(core.BUILD, "c09")
RLIB = os.path.join(C09DIR, "liblog.rlib")
DOC_RE = re.compile(r"\[ref: ([0-9]{1,10})\]")
NSTMT = 40

PRELUDE = r'''#![allow(unused, dead_code)]
use log::{debug, error, info, log, trace, warn, Level, Log, Metadata, Record};
use std::io::Write;

#[derive(Debug, Clone, Copy)]
struct Cfg { len: usize, id: u32, name: &'static str }
impl std::fmt::Display for Cfg { fn fmt(&self, f: &mut std::fmt::Formatter) -> std::fmt::Result { write!(f, "Cfg<{}>", self.id) } }

struct Recorder;
struct Collect(Vec<(String, String)>);
impl<'kvs> log::kv::VisitSource<'kvs> for Collect {
    fn visit_pair(&mut self, key: log::kv::Key<'kvs>, value: log::kv::Value<'kvs>) -> Result<(), log::kv::Error> {
        self.0.push((key.as_str().to_string(), format!("{}", value)));
        Ok(())
    }
}
fn esc(s: &str) -> String { s.replace('\\', "\\\\").replace('\n', "\\n").replace('|', "\\p") }
impl Log for Recorder {
    fn enabled(&self, _: &Metadata) -> bool { true }
    fn log(&self, r: &Record) {
        let mut c = Collect(Vec::new());
        let _ = r.key_values().visit(&mut c);
        let kvs: Vec<String> = c.0.iter().map(|(k, v)| format!("{}={}", esc(k), esc(v))).collect();
        println!("REC|{}|{}|{}|{}", r.level(), esc(r.target()), esc(&format!("{}", r.args())), kvs.join("\u{1}"));
    }
    fn flush(&self) {}
}
static RECORDER: Recorder = Recorder;
const TARGET_NAME: &str = "from::a::constant";
'''

LOCALS = '    let x = 5; let val = "v"; let user = 42u64; let n = 1.5f64; let flag = true; let cfg = Cfg { len: 3, id: 9, name: "nm" };\n'

KV_SHAPES = ["ident", "field", "uint", "float", "bool", "str", "str_semi", "str_comma", "str_escq", "mod_q", "mod_debug", "mod_pct",
             "mod_display", "short", "short_q", "short_pct", "expr"]
MSG_SHAPES = ["plain", "placeholder", "escquote", "unicode", "reflike_inside", "commentish", "parens", "empty", "braces", "named_inline",
              "width", "leading_space"]
FEATS = {
    "path": ["bare", "qual"], "level": ["info", "warn", "error"], "target": ["none", "plain", "colons", "slashes", "escq", "blockopen", "expr_const", "expr_macro", "expr_concat", "expr_format"],
    "nkv": [0, 1, 2, 3], "kv0": KV_SHAPES, "msg": MSG_SHAPES, "lay": ["tight", "space", "nl", "nl0", "blockc", "linec"],
    "directive": ["none", "none", "none", "ignore", "no-kvp"], "trailcomma": [False, True],
    "bang": ["tight", "tight", "tight", "sp", "nl", "cm", "sp_after"],
    # what stands before the statement on its line (the statement is an expression of type ())
    "ctx": ["plain", "plain", "plain", "if_block", "let_unit", "match_arm", "closure"],
}
# statements of the log crate that lie outside the canonical space (the general log! macro with an explicit level; `log` itself is
# one of the configured macro names): the tool may leave them alone or edit them, but the program must keep compiling and
# every record must be unchanged or carry exactly the added reference
NEAR = [
    'log!(Level::Info, "NG%d level first {}", x)', 'log!(target: "t", Level::Warn, "NG%d target then level")',
    'log::log!(log::Level::Error, user; "NG%d level then shorthand key")', 'log!(Level::Info, a = 1, b = val; "NG%d level then keys")',
    'log!(\n        Level::Warn,\n        "NG%d multi-line {}",\n        n\n    )', 'log!(target: TARGET_NAME, Level::Error, k = x; "NG%d const target, level, key")',
]
C09_MACROS = [("log", "info"), ("log", "warn"), ("log", "error"), ("log", "log")]
KEYS = ["a", "b", "user_id", "k9", "_x", "count", "r", "reference", "refx"]


def kv_text(shape, key, rnd):
    return {
        "ident": "%s = %s" % (key, rnd.choice(["x", "val", "user", "n", "flag"])),
        "field": "%s = %s" % (key, rnd.choice(["cfg.len", "cfg.id", "cfg.name"])),
        "uint": "%s = %d" % (key, rnd.choice([0, 1, 42, 65535, 4294967295])),
        "float": "%s = %s" % (key, rnd.choice(["1.5", "0.25"])),
        "bool": "%s = %s" % (key, rnd.choice(["true", "false"])),
        "str": '%s = "%s"' % (key, rnd.choice(["v", "some text", "ref = 5", "[ref: 7] "])),
        "str_semi": '%s = "%s"' % (key, rnd.choice(["a;b", "x; y"])),
        "str_comma": '%s = "%s"' % (key, rnd.choice(["a,b", "x, y"])),
        "str_escq": '%s = "%s"' % (key, rnd.choice(['q\\"q', 'say \\"hi\\"'])),
        "mod_q": "%s:? = %s" % (key, rnd.choice(["cfg", "val", "x"])),
        "mod_debug": "%s:debug = %s" % (key, rnd.choice(["cfg", "val"])),
        "mod_pct": "%s:%% = %s" % (key, rnd.choice(["cfg", "x", "val"])),
        "mod_display": "%s:display = %s" % (key, rnd.choice(["cfg", "n"])),
        "short": rnd.choice(["x", "val", "user", "flag"]),
        "short_q": rnd.choice(["cfg", "val"]) + ":?",
        "short_pct": rnd.choice(["cfg", "x"]) + ":%",
        "expr": "%s = %s" % (key, rnd.choice(["x + 1", "cfg.len * 2", "user as u32"])),
    }[shape]


def msg_text(cls, marker):
    m = marker
    return {
        "plain": ('"%s plain"' % m, ""),
        "placeholder": ('"%s v={} d={:?}"' % m, ", x, cfg"),
        "escquote": ('"%s say \\"hi\\" \\\\ done {}"' % m, ", val"),
        "unicode": ('"%s héllo 世界 \U0001F600 {}"' % m, ", n"),
        "reflike_inside": ('"%s see [ref: 12] and ref = 5; {}"' % m, ", x"),
        "commentish": ('"%s http://x/y /* no */ // nor"' % m, ""),
        "parens": ('"%s (a) ; , ) ( ] [ }} {{ {}"' % m, ", user"),
        "empty": ('""', ""),
        "braces": ('"{}%s{{}}"' % m, ", x"),
        "named_inline": ('"%s {x} {val:?} {n:>8.2}"' % m, ""),
        "width": ('"%s [{:>6}] [{:<4}] {name}"' % m, ", x, val, name = cfg.name"),
        "leading_space": ('"  %s leading"' % m, ""),
    }[cls]


def build_program(rows, seed, structured):
    rnd = core.rng_for("c09prog", seed)
    out = [PRELUDE]
    calls = []
    meta = []
    for i, f in enumerate(rows):
        marker = "P%d" % i
        L = lambda: gen.lay(f["lay"], rnd, "\n", indent="        ")
        macro = f["level"] if f["path"] == "bare" else "log::" + f["level"]
        SP = "" if (f["lay"] == "tight" and rnd.random() < 0.3) else " "
        bang = f.get("bang", "tight") if core.SPACED_BANG else "tight"
        parts = [macro, {"sp": " ", "nl": "\n        ", "cm": " /* lvl */ "}.get(bang, ""), "!", " " if bang == "sp_after" else "", "(", L()]
        if f["target"] != "none":
            if f["target"].startswith("expr_"):
                te = {"expr_const": "TARGET_NAME", "expr_macro": "module_path!()", "expr_concat": 'concat!(module_path!(), "::net")',
                      "expr_format": '&format!("t{}", x)'}[f["target"]]
                parts += ["target: %s" % te, L(), ",", L() or SP]
            else:
                t = {"plain": "app", "colons": "app::db", "slashes": "http://svc/x", "escq": 'a\\"b', "blockopen": "glob/* and */ too"}[f["target"]]
                parts += ['target: "%s"' % t, L(), ",", L() or SP]
        nkv = f["nkv"]
        keys = rnd.sample(KEYS, nkv)
        kvs = []
        used_short = set()
        for j in range(nkv):
            shape = f["kv0"] if j == 0 else rnd.choice(KV_SHAPES)
            txt = kv_text(shape, keys[j], rnd)
            name = txt.split(":")[0].split("=")[0].strip()
            if name in used_short:
                continue
            used_short.add(name)
            kvs.append(txt)
        for j, kv in enumerate(kvs):
            parts.append(kv)
            if j < len(kvs) - 1:
                parts += [L(), ",", L() or SP]
        if kvs:
            parts += [L(), ";", L() or SP]
        lit, args = msg_text(f["msg"], marker)
        parts += [lit, args]
        if f["trailcomma"] and args:
            parts.append(",")
        parts += [L() if f["lay"] in ("space", "nl", "nl0") else "", ")"]
        stmt = "".join(parts)
        body = "fn s%d() {\n%s" % (i, LOCALS)
        if f["directive"] == "ignore":
            body += "    // breadlog:ignore\n"
        elif f["directive"] == "no-kvp":
            body += "    /* breadlog:no-kvp */\n"
        ctx = f.get("ctx", "plain")
        head, tail_ = {"if_block": ("if flag && x > 1 && cfg.len >= 3 && user != 0 { ", " }"), "let_unit": ("let _unit: () = ", ";"),
                       "match_arm": ("match x { 5 if flag => ", ", _ => () }"), "closure": ("(|| ", ")();")}.get(ctx, ("", ";"))
        body += "    " + head + stmt + tail_ + "\n}\n"
        out.append(body)
        calls.append("    s%d();" % i)
        effect = "none" if f["directive"] == "ignore" else ("msg" if (not structured or f["directive"] == "no-kvp") else "kv")
        if f["target"].startswith("expr_") and effect != "none":
            effect = "either:" + effect     # outside the canonical (string-target) space: untouched or faithfully edited
        meta.append({"marker": marker, "stmt": stmt, "effect": effect, "feat": f})
    for j, t in enumerate(rnd.sample(NEAR, 3)):
        i = len(rows) + j
        out.append("fn s%d() {\n%s    %s;\n}\n" % (i, LOCALS, t % i))
        calls.append("    s%d();" % i)
        meta.append({"marker": "NG%d" % i, "stmt": t % i, "effect": "either:" + ("kv" if structured else "msg"), "feat": {"near": j}})
    out.append("fn main() {\n    log::set_logger(&RECORDER).unwrap();\n    log::set_max_level(log::LevelFilter::Trace);\n" + "\n".join(calls) + "\n}\n")
    return "\n".join(out), meta


def ensure_rlib():
    os.makedirs(C09DIR, exist_ok=True)
    if os.path.exists(RLIB):
        return
    srcs = sorted(glob.glob(os.path.expanduser("~/.cargo/registry/src/*/log-0.4.22/src/lib.rs")))
    if not srcs:
        raise core.Inconclusive("log 0.4.22 sources not found in the cargo registry")
    r = subprocess.run(["rustc", "--crate-type", "rlib", "--crate-name", "log", "--edition", "2021", "--cfg", 'feature="kv"',
                        "--cfg", 'feature="std"', "-O", "--cap-lints", "allow", srcs[0], "-o", RLIB + ".tmp"],
                       stdout=subprocess.PIPE, stderr=subprocess.STDOUT, text=True)
    if r.returncode != 0:
        raise core.Inconclusive("building the log rlib failed: " + r.stdout[-500:])
    os.replace(RLIB + ".tmp", RLIB)


def compile_run(src_path, out_path):
    r = subprocess.run(["rustc", "--edition", "2021", "--cap-lints", "allow", "-C", "debuginfo=0", "-C", "opt-level=0", "--extern",
                        "log=" + RLIB, src_path, "-o", out_path], stdout=subprocess.PIPE, stderr=subprocess.STDOUT, text=True)
    if r.returncode != 0:
        return None, r.stdout
    p = subprocess.run([out_path], stdout=subprocess.PIPE, stderr=subprocess.PIPE, timeout=60)
    recs = []
    for line in p.stdout.decode("utf-8", "replace").splitlines():
        if line.startswith("REC|"):
            _, lvl, tgt, msg, kvs = line.split("|", 4)
            recs.append((lvl, tgt, msg, [tuple(x.split("=", 1)) for x in kvs.split("\x01")] if kvs else []))
    return recs, p.stderr.decode("utf-8", "replace")


def run_program(built, rows, seed, structured, perturb=None):
    """-> dict(before recs, after recs, compile errors, meta, edit rec)
    perturb: None | "short-all" (every write(2) transfers part of what was asked: must be absorbed) | ("partial", fraction)
    (one write to the scratch file stores a prefix, the write of the remainder fails with ENOSPC, later operations succeed)"""
    src, meta = build_program(rows, seed, structured)
    if core.rng_for("c09eol", seed).random() < 0.25:
        src = src.replace("\n", "\r\n")          # a program saved with CRLF line ends (rustc does not mind)
    with core.Box(tag="c09") as box:
        if not (isinstance(perturb, tuple) and perturb[0] == "neighbours"):
            box.write("src/main.rs", src)
        else:
            # the program is one file of a larger source tree: other modules with statements of their own, a file without any, an
            # empty one, and legacy files that are not valid UTF-8 (they cannot be loaded; the run may report failure for them).
            # Whatever happens to those, the program's own file must still compile and behave as before.
            nb = {"src/0_legacy.rs": b'// caf\xe9 (Latin-1)\nfn l() { info!("legacy"); }\n',
                  "src/a_mod.rs": b'pub fn a() {\n    info!("a one");\n    warn!(k = 1; "a two");\n}\n',
                  "src/m/deep.rs": b'pub fn d() { error!("deep"); }\n',
                  "src/n_plain.rs": b'pub const N: usize = 3;\n', "src/o_empty.rs": b'',
                  "src/z_mod.rs": b'// filler filler filler filler\npub fn z() {\n\n\n        info!("z one"); warn!("z two");\n}\n',
                  "src/zz/zz_legacy.rs": b'\xff\xfe not text'}
            chosen = {rel: nb[rel] for rel in (sorted(nb)[:3 + int(perturb[1] * 5)] if perturb[1] < 0.8 else sorted(nb))}
            chosen["src/0_legacy.rs"] = nb["src/0_legacy.rs"]
            chosen["src/main.rs"] = src
            order = sorted(chosen)
            # (the order in which a directory lists its entries follows the order of creation on some file systems: vary it)
            core.rng_for("c09order", seed).shuffle(order)
            for rel in order:
                box.write(rel, chosen[rel])
        cfgtext = core.make_config(structured=True if structured else None, use_cache=False, macros=C09_MACROS)
        cfg = box.write("Breadlog.yaml", cfgtext)
        before, err0 = compile_run(os.path.join(box.proj, "src/main.rs"), os.path.join(box.root, "before.bin"))
        if before is None:
            return {"gen_error": err0, "meta": meta, "src": src}
        rules = None
        if perturb == "short-all":
            rules = "kind=write,act=short;kind=read,act=short"
        elif perturb and perturb[0] == "partial":
            from .. import fault
            with core.Box(tag="c09d") as dry:
                dry.write("src/main.rs", src)
                dcfg = dry.write("Breadlog.yaml", cfgtext)
                d = core.run_breadlog(built, dry, dcfg, shim=True)
            ws = [o["n"] for o in (d.shim or []) if fault.phase_of(o) == "tmp-write" and o["bytes"] > 1]
            if ws:
                k = ws[min(len(ws) - 1, int(perturb[1] * len(ws)))]
                rules = "n=%d,act=short;n=%d,act=errno:28" % (k, k + 1)
        ed = core.run_breadlog(built, box, cfg, rules=rules, shim=bool(rules), read_ops=(perturb == "short-all"))
        after_src = box.read("src/main.rs").decode("utf-8", "replace")
        after, err1 = compile_run(os.path.join(box.proj, "src/main.rs"), os.path.join(box.root, "after.bin"))
    return {"before": before, "after": after, "err": err1, "meta": meta, "edit": ed, "src": src, "after_src": after_src}


def compare(r, structured):
    """-> list of (clause, marker-index, detail)"""
    v = []
    before, after, meta = r["before"], r["after"], r["meta"]
    if after is None:
        return [("edited-program-does-not-compile", None, {"rustc": r["err"][-600:]})]
    if len(before) != len(after):
        return [("record-count-differs", None, {"before": len(before), "after": len(after)})]
    for i, (b, a) in enumerate(zip(before, after)):
        m = meta[i]
        eff = m["effect"]
        if b[0] != a[0] or b[1] != a[1]:
            v.append(("level-or-target-changed", i, {"before": b[:2], "after": a[:2]}))
            continue
        if eff.startswith("either:"):
            if a == b:
                continue
            eff = eff.split(":", 1)[1]
        if eff == "none":
            if a != b:
                v.append(("ignored-statement-changed", i, {"before": b, "after": a}))
        elif eff == "msg":
            mm = re.match(r"^\[ref: ([0-9]{1,10})\] ", a[2])
            if not mm or a[2][mm.end():] != b[2]:
                v.append(("message-not-prefixed-by-reference-only", i, {"before": b[2], "after": a[2]}))
            else:
                d = DOC_RE.search(a[2])
                if not d or d.group(1) != mm.group(1):
                    v.append(("documented-regex-extracts-other-number", i, {"message": a[2]}))
            if a[3] != b[3]:
                v.append(("key-values-changed", i, {"before": b[3], "after": a[3]}))
        else:
            if a[2] != b[2]:
                v.append(("message-changed-in-structured-mode", i, {"before": b[2], "after": a[2]}))
            extra = list(a[3])
            refs = [kv for kv in extra if kv[0] == "ref"]
            if len(refs) != 1 or not refs[0][1].isdigit():
                v.append(("no-single-ref-key-value", i, {"kvs": a[3]}))
            else:
                extra.remove(refs[0])
                if extra != list(b[3]):
                    v.append(("other-key-values-changed", i, {"before": b[3], "after": a[3]}))
    return v


def work(job):
    built, seed, pi, rows, structured = job
    res = {"evaluations": 1, "nontrivial": [], "violations": [], "samples": [], "inconclusive": {}, "counters": {}}
    pr = core.rng_for("c09perturb", seed, pi)
    x = pr.random()
    perturb = "short-all" if x < 0.12 else (("partial", pr.random()) if x < 0.3 else (("neighbours", pr.random()) if x < 0.52 else None))
    r = run_program(built, rows, "%d-%d" % (seed, pi), structured, perturb)
    if "gen_error" in r:
        # the *generated* program does not compile: harness problem, bisect to drop offending generator rows
        res["inconclusive"]["generated program does not compile (generator bug): " + r["gen_error"].strip().splitlines()[0][:120]] = 1
        return res
    res["counters"]["edit_run_%s" % (perturb if isinstance(perturb, str) else (("partial-write-failure" if perturb[0] == "partial" else "in-a-tree-with-other-and-unloadable-files") if perturb else "undisturbed"))] = 1
    if isinstance(perturb, tuple):
        # the edit run may legitimately fail and leave the program as it was: every statement is then either untouched or
        # faithfully edited - but the program on disk must compile and behave as before in any case
        if r["edit"].panicked():
            res["inconclusive"]["edit run crashed (%s)" % r["edit"].ended()] = 1
            return res
        for m in r["meta"]:
            if not m["effect"].startswith("either:") and m["effect"] != "none" and r["edit"].rc != 0:
                m["effect"] = "either:" + m["effect"]
        v = compare(r, structured)
        res["counters"]["programs"] = 1
        res["counters"]["records_compared"] = len(r["before"])
        for clause, i, detail in v:
            res["violations"].append({"signature": "C09.%s|%s|%s" % (clause, "structured" if structured else "unstructured",
                                                                         "edit-run-with-partial-write-failure" if perturb[0] == "partial" else "program-in-a-tree-with-unloadable-files"),
                                      "detail": dict(detail, edit_exit=r["edit"].ended(), after_source_excerpt=r["after_src"][:300]),
                                      "case": {"rows": rows, "structured": structured, "perturb": list(perturb), "seedtag": "%d-%d" % (seed, pi)}})
            break
        return res
    if r["edit"].panicked() or r["edit"].rc != 0:
        res["inconclusive"]["edit run failed/crashed (%s)" % r["edit"].ended()] = 1
        return res
    v = compare(r, structured)
    res["counters"]["programs"] = 1
    res["counters"]["statements"] = len(rows)
    res["counters"]["records_compared"] = len(r["before"])
    res["counters"]["disagreements_checked"] = len(v)
    for m in r["meta"]:
        res["nontrivial"].append(json.dumps([structured, sorted(m["feat"].items())]))
    if v and v[0][0] == "edited-program-does-not-compile":
        # bisect to single statements
        offenders = []
        for i, row in enumerate(rows):
            r1 = run_program(built, [row], "%d-%d-%d" % (seed, pi, i), structured)
            if "gen_error" in r1:
                continue
            if r1["after"] is None:
                offenders.append((i, row, r1))
            if len(offenders) >= 3:
                break
        for i, row, r1 in offenders:
            nn = {k: row[k] for k in ("target", "nkv", "kv0", "lay", "directive", "msg") if row[k] not in ("none", 0, "tight", "plain")}
            res["violations"].append({"signature": "C09.edited-program-does-not-compile|%s|%s" % ("structured" if structured else "unstructured",
                                                                                                 ",".join("%s=%s" % kv for kv in sorted(nn.items()))),
                                      "detail": {"statement_before": r1["meta"][0]["stmt"], "rustc": r1["err"][-500:],
                                                 "after_source_excerpt": r1["after_src"][-400:]},
                                      "case": {"rows": [row], "structured": structured}})
        if not offenders:
            # no single statement fails alone: the failure needs several statements of the file together -> reduce the
            # statement list while the edited program keeps failing to compile (ddmin by single removals)
            cur = list(rows)
            i = 0
            while i < len(cur) and len(cur) > 1:
                trial = cur[:i] + cur[i + 1:]
                r2 = run_program(built, trial, "%d-%d-dd" % (seed, pi), structured)
                if "gen_error" not in r2 and r2.get("after") is None:
                    cur = trial
                else:
                    i += 1
            descr = []
            for row in cur[:3]:
                nn = {k: row[k] for k in ("nkv", "directive", "target") if row[k] not in ("none", 0)}
                descr.append(",".join("%s=%s" % kv for kv in sorted(nn.items())) or "plain")
            r3 = run_program(built, cur, "%d-%d-dd" % (seed, pi), structured)
            res["violations"].append({"signature": "C09.edited-program-does-not-compile|%s|needs-%d-statements[%s]" % (
                                          "structured" if structured else "unstructured", len(cur), " + ".join(descr)),
                                      "detail": {"rustc": (r3.get("err") or r["err"])[-500:], "statements_before": [m["stmt"] for m in r3["meta"]][:4],
                                                 "after_source_excerpt": r3.get("after_src", "")[-600:]},
                                      "case": {"rows": cur, "structured": structured}})
        return res
    for clause, i, detail in v:
        row = rows[i] if (i is not None and i < len(rows)) else {}
        nn = {k: row.get(k) for k in ("target", "nkv", "lay", "directive", "msg") if row.get(k) not in ("none", 0, "tight", "plain", None)}
        res["violations"].append({"signature": "C09.%s|%s|%s" % (clause, "structured" if structured else "unstructured",
                                                                ",".join("%s=%s" % kv for kv in sorted(nn.items()))),
                                  "detail": dict(detail, statement=(r["meta"][i]["stmt"] if i is not None else None)),
                                  "case": {"rows": [row] if (i is not None and i < len(rows)) else rows, "structured": structured}})
    if pi < 2:
        k = 0
        res["samples"].append({"structured": structured, "statement": r["meta"][k]["stmt"], "effect": r["meta"][k]["effect"],
                               "record_before": r["before"][k], "record_after": r["after"][k]})
    return res


def main(tier):
    ck = frame.Check(PROP, tier, "translation_validation", replay_fn=replay_witness)
    built = core.build_repo()
    ensure_rlib()
    ck.built = built
    rnd = core.rng_for("c09", ck.seed, tier)
    nprog = 240 if tier == "quick" else 2400
    rows = list(gen.covering_rows(FEATS, 2, rnd, candidates=10))
    while len(rows) < nprog * NSTMT:
        rows.append({k: rnd.choice(v) for k, v in FEATS.items()})
    rnd.shuffle(rows)
    jobs = []
    for pi in range(nprog):
        jobs.append((built, ck.seed, pi, rows[pi * NSTMT:(pi + 1) * NSTMT], pi % 2 == 1))
    for res in frame.pmap(work, jobs):
        ck.absorb(res)
    req, cov = gen.tuple_coverage(rows[:nprog * NSTMT], FEATS, 2)
    ck.extra.update({"programs": ck.counters.get("programs", 0), "disagreements_checked": ck.counters.get("disagreements_checked", 0),
                     "pairs_required": req, "pairs_covered": cov, "statements_per_program": NSTMT,
                     "capture_modifiers_executed": ["?", "debug", "%", "display"],
                     "capture_modifiers_not_compilable_offline": ["err", "sval", "serde"]})
    ck.rule = ("closed Rust programs (no input: one execution is the whole logging behaviour) of %d log statements each over the log "
               "macro grammar (level, bare/qualified path, target, 0-3 key-values with capture modifiers and shorthand, message classes "
               "with format arguments, layouts, directives), compiled against log 0.4.22 (feature kv) and executed before and after an "
               "edit run; record sequences (level, target, message, ordered key-values) compared; distinct_nontrivial = distinct "
               "(style, feature vector) of executed statements" % NSTMT)
    ck.assumptions = ["rustc + log 0.4.22 rlib as the semantics of the program", ":err/:sval/:serde need crate features that do not resolve offline"]
    return ck.finish()


def replay_witness(w, ck=None, built=None):
    built = built or (ck.built if ck else None) or core.build_repo()
    ensure_rlib()
    c = w["case"] if "case" in w else w["first"]["case"]
    pt = c.get("perturb")
    r = run_program(built, c["rows"], c.get("seedtag", "replay"), c["structured"], tuple(pt) if pt else None)
    if pt and r.get("edit") is not None and r["edit"].rc != 0:
        for m in r["meta"]:
            if not m["effect"].startswith("either:") and m["effect"] != "none":
                m["effect"] = "either:" + m["effect"]
    if "gen_error" in r:
        return False
    return bool(compare(r, c["structured"]))


def replay(path):
    failing = replay_witness(json.load(open(path)))
    print("replay %s: %s" % (path, "VIOLATION reproduced" if failing else "no violation"))
    if failing:
        print("VIOLATION property=%s replay=%s" % (PROP, path))
    return 1 if failing else 0
