"""C18 - SIGINT and SIGTERM stop a run cleanly."""
import json
import os
import signal

from .. import core, frame, fault, trees

PROP = "C18"
SIGS = {"TERM": signal.SIGTERM, "INT": signal.SIGINT}


def projects(tier, seed):
    rnd = core.rng_for("c18proj", seed, tier)
    ps = [fault.small_project(rnd, nfiles=3, stmts=(1, 3), label="t0"),
          fault.small_project(rnd, nfiles=4, stmts=(1, 2), structured=True, lock=core.lock_text(200), label="t1"),
          fault.small_project(rnd, nfiles=1, stmts=(2, 3), use_cache=False, label="t2")]
    # a tree in which every statement already carries a reference: --check would pass if it were not interrupted
    full = {"src/a.rs": b'fn a() {\n    info!("[ref: 1] one");\n    warn!(k = 1; "[ref: 2] two");\n}\n',
            "src/b.rs": b'fn b() {\n    error!("[ref: 3] three");\n}\n',
            "src/sub/c.rs": b'fn c() {\n    log::info!("[ref: 4] four");\n}\n'}
    ps.append(fault.Project(full, label="t_complete"))
    ps.append(fault.Project(dict(full), lock=core.lock_text(5), label="t_complete_lock"))
    # fully referenced trees that also hold files which cannot be read as text (first, in the middle, last in walk order): an
    # interrupted --check must not pass there either, and the stop request must be seen while such a file is in hand
    unread = dict(full)
    unread["src/aa_first_unreadable.rs"] = b'fn u() { info!("caf\xe9"); }\n'
    unread["src/m_unreadable.rs"] = b'\xff\xfe\x00broken'
    unread["src/zz/zz_last_unreadable.rs"] = b'fn z() { info!("\xc3("); }\n'
    ps.append(fault.Project(unread, label="t_complete_with_unreadable"))
    mixed = {"src/a.rs": b'fn a() {\n    info!("needs one");\n}\n', "src/b_unreadable.rs": b'fn u() { info!("caf\xe9"); }\n',
             "src/c.rs": b'fn c() {\n    warn!("needs one too");\n}\n', "src/zz_unreadable.rs": b'\xff\xfe'}
    ps.append(fault.Project(mixed, label="t_missing_with_unreadable"))
    # the first file in walk order needs references, all later ones are complete (a failure on the first one plus a stop request
    # while the rest is being looked at: nothing is "left to do" except the file that failed)
    ps.append(fault.Project({"src/a_needs.rs": b'fn a() {\n    info!("needs one");\n    warn!("needs another");\n}\n',
                             "src/b.rs": b'fn b() {\n    error!("[ref: 3] three");\n}\n', "src/c.rs": b'fn c() {\n    info!("[ref: 4] four");\n}\n',
                             "src/d/e.rs": b'fn e() {\n    warn!("[ref: 5] five");\n}\n', "src/z.rs": b'fn z() {\n    info!("[ref: 6] six");\n}\n'},
                            use_cache=False, label="t_head_needs_tail_complete"))
    # source files without any log statement (and an empty one) among the others - the stop request must be seen while such a file is
    # the one in hand, too: no later file is started, and an interrupted --check does not pass
    plain = {"src/aa_plain.rs": b'pub fn helper() -> u32 {\n    7\n}\n', "src/m_empty.rs": b'',
             "src/n_plain.rs": b'// nothing to see: println!("not configured")\npub const N: usize = 3;\n',
             "src/zz/zz_plain.rs": b'pub mod inner {\n    pub fn f() {}\n}\n'}
    ps.append(fault.Project(dict(plain, **{"src/a.rs": b'fn a() {\n    info!("needs one");\n}\n', "src/k.rs": b'fn k() {\n    warn!("needs one too");\n}\n',
                                           "src/z.rs": b'fn z() {\n    error!("and this one");\n}\n'}), label="t_missing_with_statementless"))
    ps.append(fault.Project(dict(plain, **full), label="t_complete_with_statementless"))
    # a source file of a few hundred KB (read, parsed and written in several steps)
    ps.append(fault.small_project(rnd, nfiles=2, stmts=(1, 2), big=300000, label="t_big300k"))
    if tier == "thorough":
        ps.append(fault.small_project(rnd, nfiles=6, stmts=(1, 4), label="t3"))
        ps.append(fault.small_project(rnd, nfiles=2, stmts=(1, 2), big=50000, label="t4big"))
        for j in range(5):
            ps.append(fault.small_project(rnd, nfiles=rnd.choice([1, 2, 3, 5]), stmts=(1, 5), structured=rnd.random() < 0.5,
                                          lock=rnd.choice([None, core.lock_text(700)]), use_cache=rnd.choice([None, None, False]),
                                          label="u%d" % j))
    return ps


def file_of_ops(ops):
    """Assign to every op the source file it belongs to (tmp ops belong to the most recently opened source file)."""
    cur = None
    out = []
    for o in ops:
        ph = fault.phase_of(o)
        if ph == "src-read-open":
            cur = o["path"]
        f = cur if (ph.startswith("src-") or ph.startswith("tmp-") or ph == "rename") else None
        out.append((o["n"], ph, f))
    return out


def judge(proj, rec, box, cfg, built, expected, k, mode, sync=True, last_open=None):
    v = []
    ops = rec.shim or []
    fo = file_of_ops(ops)
    disc = next((n for n, ph, f in fo if ph == "discovery"), None)
    states, ids = fault.post_state(proj, box, expected)
    other = fault.others_changed(proj, box)
    lock = core.read_lock(os.path.join(box.proj, "Breadlog.lock"))
    cache_on = proj.use_cache is not False
    before_handlers = sync and (disc is None or k < disc)
    info = {"phase": "pre-discovery" if before_handlers else None, "states": states}
    torn = {r: s for r, s in states.items() if s.startswith("torn")}
    if before_handlers:
        # a signal during start-up may terminate the process, but then nothing has been modified
        if rec.sig:
            changed = [r for r, s in states.items() if s != "original"]
            if changed or other:
                v.append(("killed-at-startup-but-files-modified", {"files": changed + other}))
            return v, info
    if rec.sig:
        v.append(("terminated-by-the-signal", {"signal": rec.sig}))
    if torn:
        r0 = sorted(torn)[0]
        v.append(("source-file-" + torn[r0], {"file": r0}))
    if other:
        v.append(("other-project-file-changed", {"files": other}))
    if mode == "check":
        # the final summary line is printed after the last file has been dealt with and the pass has been declared complete
        summary_n = next((o["n"] for o in ops if o["kind"] == "stdio" and "Total missing references (all files)" in (o.get("path2") or "")), None)
        complete_tree = proj.label.startswith("t_complete")
        if rec.rc == 0 and sync and not before_handlers and complete_tree and summary_n is not None and k >= summary_n \
                and (last_open is None or k > last_open):
            pass    # the signal came with (or after) the run's final summary line and after the last source file the uninterrupted
            #         run opens: the check had finished, nothing was left to do
        elif rec.rc == 0 and (sync and not before_handlers):
            # "an interrupted --check never passes", whether or not the tree has statements without reference
            v.append(("interrupted-check-exited-0", {"tree_complete": not any(s != "original" for s in states.values()) and proj.label.startswith("t_complete")}))
        elif rec.rc == 0 and not sync and not proj.label.startswith("t_complete"):
            v.append(("interrupted-check-exited-0", {"note": "the tree has statements without reference"}))
        if any(s != "original" for s in states.values()):
            v.append(("check-mode-modified-files", {}))
    else:
        if rec.rc == 0:
            fol = core.run_breadlog(built, box, cfg, check=True)
            if fol.rc != 0:
                v.append(("edit-exited-0-with-work-left", {"following_check": fol.ended(), "missing": fol.missing()[:2]}))
        if cache_on and ids:
            if lock[0] != "ok" or lock[1] <= max(ids):
                v.append(("lock-does-not-cover-ids-written", {"lock": lock, "max_id_on_disk": max(ids)}))
    if sync and not before_handlers and not rec.sig:
        # the run must stop: no new file may be started after the file that operation k belongs to
        at = next(((n, ph, f) for n, ph, f in fo if n == k), None)
        if at is not None:
            curfile = at[2]
            # which pass was op k in? count read-opens of curfile up to and including k
            later_opens = [(n, f) for n, ph, f in fo if n > k and ph == "src-read-open"]
            if at[1] == "src-read-open":
                pass  # op k is itself the start of curfile (flag was checked before): curfile may be finished
            bad = [(n, f) for n, f in later_opens]      # any read-open after k starts a new file or a new pass
            if bad:
                n_, f_ = bad[0]
                kind = "same-file-again(next pass)" if f_ == curfile else "another-file"
                v.append(("did-not-stop:started-%s-after-the-signal" % kind,
                          {"k": k, "op_k": at[1], "file_at_k": os.path.basename(curfile or "-"), "later_open": (n_, os.path.basename(f_))}))
            info["phase"] = at[1]
    return v, info


def work(job):
    built, pi, proj, expected, k, signame, mode = job[:7]
    second = job[7] if len(job) > 7 else None
    faultrule = job[8] if len(job) > 8 else None
    last_open = job[9] if len(job) > 9 else None
    res = {"evaluations": 1, "nontrivial": [], "violations": [], "samples": [], "inconclusive": {}, "counters": {}}
    rules = "n=%d,act=sig:%d" % (k, SIGS[signame])
    if faultrule:
        rules = faultrule + ";" + rules
        res["counters"]["fault_plus_signal_injections"] = 1
    if second:
        rules += ";n=%d,act=sig:%d" % (k + second[0], SIGS[second[1]])
        res["counters"]["double_signal_injections"] = 1
    with core.Box(tag="c18") as box:
        cfg = proj.materialise(box)
        rec = core.run_breadlog(built, box, cfg, check=(mode == "check"), rules=rules, timeout=120, stdio_ops=True,
                                stdin_tty=bool(second and len(second) > 2 and second[2]))
        fired = [o for o in (rec.shim or []) if o["fired"] and o["fired"].startswith("sig")]
        if rec.timed_out:
            res["inconclusive"]["timeout"] = 1
            return res
        if not fired:
            res["inconclusive"]["injection did not fire"] = 1
            return res
        if rec.panicked():
            res["inconclusive"]["run-panicked (C17's business)"] = 1
            return res
        v, info = judge(proj, rec, box, cfg, built, expected, k, mode, last_open=last_open)
    phase = info.get("phase") or "?"
    res["nontrivial"].append("%s|%d|%s|%s|%s" % (proj.label, k, signame, mode, second))
    res["counters"]["fired_%s_%s" % (signame, mode)] = 1
    res["counters"]["phase_" + phase] = 1
    res["counters"]["ended_" + rec.ended()] = 1
    for clause, detail in v:
        res["violations"].append({"signature": "C18.%s|SIG%s|%s|%s" % (clause, signame, mode, phase),
                                  "detail": dict(detail, k=k, exit=rec.ended(), stdout_tail=rec.out[-250:],
                                                 ops=[(o["n"], o["kind"], os.path.basename(o["path"])) for o in (rec.shim or [])][max(0, k - 3):k + 6]),
                                  "case": {"project": pi, "k": k, "sig": signame, "mode": mode, "second": second, "faultrule": faultrule}})
    if pi == 0 and k in (5, 14) and signame == "INT":
        res["samples"].append({"project": proj.label, "rule": rules, "mode": mode, "phase": phase, "ended": rec.ended(),
                               "post_states": info["states"], "ops_after_signal": [(o["n"], o["kind"], os.path.basename(o["path"])) for o in (rec.shim or []) if o["n"] >= k][:8]})
    return res


def async_work(job):
    built, seed, i, files, structured, delay, signame, mode, expected = job
    res = {"evaluations": 1, "nontrivial": [], "violations": [], "samples": [], "inconclusive": {}, "counters": {}}
    proj = fault.Project(files, structured=structured, label="async")
    with core.Box(tag="c18a") as box:
        cfg = proj.materialise(box)
        rec = core.run_breadlog(built, box, cfg, check=(mode == "check"), async_signal=(delay, SIGS[signame]), timeout=120)
        if rec.timed_out:
            res["inconclusive"]["timeout"] = 1
            return res
        if rec.panicked():
            res["inconclusive"]["run-panicked (C17's business)"] = 1
            return res
        v, info = judge(proj, rec, box, cfg, built, expected, 0, mode, sync=False)
        states = info["states"]
    n_complete = sum(1 for s in states.values() if s.startswith("complete"))
    partial = 0 < n_complete < len([1 for r in files])
    res["counters"]["async_runs"] = 1
    res["counters"]["async_stopped_midway"] = int(partial or (rec.rc not in (0, None) and mode == "check"))
    res["counters"]["async_ended_" + rec.ended()] = 1
    res["nontrivial"].append("async|%s|%s|%d" % (signame, mode, min(9, int(10 * n_complete / max(1, len(files))))))
    for clause, detail in v:
        # a signal in the first milliseconds (before the handlers exist) may kill the process iff nothing was modified
        # Start-up window, decided on what the process itself reported, not on the clock: the line "Running in ... mode" is
        # logged right after the handlers are registered. Without it the signal arrived before the handlers existed, which
        # may terminate the process - but then nothing has been modified.
        if clause == "terminated-by-the-signal" and "Running in " not in rec.out:
            if all(s == "original" for s in states.values()):
                res["counters"]["async_killed_at_startup_nothing_modified"] = 1
                continue
        if clause.startswith("source-file-torn") is False and clause == "source-file-complete?":
            continue
        res["violations"].append({"signature": "C18.%s|SIG%s|%s|async" % (clause, signame, mode),
                                  "detail": dict(detail, delay=delay, exit=rec.ended(), complete_files=n_complete, stdout_tail=rec.out[-250:]),
                                  "case": {"async": True, "seed": seed, "i": i}})
    return res


def main(tier):
    ck = frame.Check(PROP, tier, "fault_enumeration", replay_fn=replay_witness)
    built = core.build_repo()
    core.build_shim()
    ck.built = built
    rnd = core.rng_for("c18", ck.seed, tier)
    jobs = []
    table = {}
    for pi, proj in enumerate(projects(tier, ck.seed)):
        for mode in ("edit", "check"):
            ops, after, rec, expected, lock = fault.clean_reference(built, proj, check=(mode == "check"), stdio_ops=True)
            K = len(ops)
            table["%s|%s" % (proj.label, mode)] = K
            ks = list(range(1, K + 1))
            if K > 150:
                keep = set(o["n"] for o in ops if o["kind"] not in ("write",))
                wr = [o["n"] for o in ops if o["kind"] == "write"]
                keep |= set(wr[:10]) | set(wr[-10:]) | set(rnd.sample(wr, min(len(wr), 30)))
                ks = sorted(keep)
            # the last source file the uninterrupted run opens: a stop request before that point interrupts work in progress
            last_open = max([o["n"] for o in ops if fault.phase_of(o) == "src-read-open"], default=None)
            for k in ks:
                for s in SIGS:
                    jobs.append((built, pi, proj, expected, k, s, mode, None, None, last_open))
            if proj.label == "t_head_needs_tail_complete" and mode == "edit":
                # the first file's rename fails (EXDEV / EACCES), then the stop request arrives at each later operation
                ren = next((o["n"] for o in ops if o["kind"] == "rename" and "Breadlog.lock" not in (o["path"] or "")), None)
                for k in [x for x in ks if ren and x > ren]:
                    for en in (18, 13):
                        jobs.append((built, pi, proj, expected, k, rnd.choice(list(SIGS)), mode, None, "kind=rename,dst~=a_needs.rs,act=errno:%d" % en))
            # a second signal while the run is stopping (same and the other signal, 1-3 operations later)
            for k in ks[::3]:
                for s, s2 in (("TERM", "INT"), ("INT", "INT"), ("TERM", "TERM")):
                    jobs.append((built, pi, proj, expected, k, s, mode, (1 + (k % 3), s2)))
                # ... and the same when the tool is run interactively (stdin is a terminal)
                jobs.append((built, pi, proj, expected, k, "INT", mode, (1 + (k % 2), "INT", True)))
                jobs.append((built, pi, proj, expected, k, "TERM", mode, (2, "INT", True)))
    rnd.shuffle(jobs)
    for res in frame.pmap(work, jobs, chunksize=8):
        ck.absorb(res)
    # asynchronous delivery between operations: kill(2) from the harness at seeded random delays over a many-file tree
    t = trees.gen_tree(core.rng_for("c18tree", ck.seed), nfiles=150 if tier == "quick" else 300, stmts=(2, 8), label="as")
    proj = fault.Project(t.files, label="async")
    _ops, _after, r0, aexpected, _lock = fault.clean_reference(built, proj)
    with core.Box(tag="c18m") as box:
        cfg = proj.materialise(box)
        r0 = core.run_breadlog(built, box, cfg)
    T = max(0.02, r0.wall)
    ck.extra["async_clean_run_wall_s"] = round(T, 3)
    n_async = 400 if tier == "quick" else 6000
    ajobs = []
    for i in range(n_async):
        ajobs.append((built, ck.seed, i, t.files, False, rnd.uniform(0.001, T * 1.05), rnd.choice(list(SIGS)), rnd.choice(["edit", "edit", "check"]), aexpected))
    for res in frame.pmap(async_work, ajobs, chunksize=2):
        ck.absorb(res)
    ck.extra["ops_per_clean_run"] = table
    ck.exhaustive = all(v <= 150 for v in table.values())
    ck.rule = ("synchronous delivery: for each project and mode the signal (SIGTERM, SIGINT) is raised by the shim immediately before "
               "operation k - a filesystem operation or the write of a log line to stdout - for every k of the clean run (exhaustive per project unless a run has > 150 operations; then all non-write "
               "operations plus a sample of writes); asynchronous delivery: kill(2) from the harness at seeded random delays over a "
               "150/300-file tree. Oracle: not terminated by the signal (from discovery start on), no exit 0 with work left, no file "
               "started after the one in progress (shim log), every source file original or complete, lock covers every ID on disk; "
               "distinct_nontrivial = distinct (project, k, signal, mode) fired + async outcome classes")
    ck.assumptions = ["'moment' = filesystem-operation boundary (synchronous) or wall-clock instant (asynchronous, sampled)",
                      "before the first directory open the handlers may not exist yet: death by signal allowed iff nothing was modified"]
    return ck.finish()


def replay_witness(w, ck=None, built=None):
    built = built or (ck.built if ck else None) or core.build_repo()
    core.build_shim()
    c = w["case"] if "case" in w else w["first"]["case"]
    if c.get("async"):
        return False
    ps = projects(w.get("tier", "quick"), w.get("seed", 0))
    proj = ps[c["project"]]
    ops, after, rec, expected, lock = fault.clean_reference(built, proj, check=(c["mode"] == "check"), stdio_ops=True)
    last_open = max([o["n"] for o in ops if fault.phase_of(o) == "src-read-open"], default=None)
    job = (built, c["project"], proj, expected, c["k"], c["sig"], c["mode"], tuple(c["second"]) if c.get("second") else None, c.get("faultrule"), last_open)
    r = work(job)
    return bool(r["violations"])


def replay(path):
    failing = replay_witness(json.load(open(path)))
    print("replay %s: %s" % (path, "VIOLATION reproduced" if failing else "no violation"))
    if failing:
        print("VIOLATION property=%s replay=%s" % (PROP, path))
    return 1 if failing else 0
