"""C14 - directives affect exactly the statement(s) starting on the line they precede."""
import json

from .. import core, frame, gen, lab

PROP = "C14"

DIMS = {
    "directive": ["ignore", "no-kvp", "near_extra", "near_spelling", "near_prefix", "none"],
    "cstyle": ["line", "block"],
    "case": ["lower", "upper", "mixed"],
    "pad": ["one", "none", "many", "tabs", "unicode"],
    "indent": ["none", "spaces", "tab"],
    "blanks": [0, 1, 2, 3, 5, 40],
    "between": ["nothing", "code_line", "attribute_line", "code_then_comment", "comment_line", "other_directive", "directive_after", "directive_trailing",
                "code_with_trailing_directive"],
    "nstmts": [1, 2, 3],
    "multiline": [False, True],
    # how the (last) subject statement is spelled: name, `!` and `(` on one line, or the name alone on the line the statement
    # starts on with `!(` on the next one / layout between them
    "spelling": ["tight", "tight", "name_then_newline", "spaced", "comment_between"],
    "mb": ["none", "before_on_line", "unicode_neighbour", "code_before", "code_before"],
    "structured": [False, True],
}


def directive_text(d, rnd):
    base = {"ignore": "breadlog:ignore", "no-kvp": "breadlog:no-kvp"}
    if d in base:
        return base[d]
    if d == "near_extra":
        return rnd.choice(["breadlog:ignore please", "breadlog:ignore, breadlog:no-kvp", "see breadlog:ignore", "// breadlog:ignore",
                           "no longer needed: // breadlog:no-kvp", "/ breadlog:ignore", "* breadlog:ignore", "breadlog:ignore //", "/* breadlog:ignore",
                           "breadlog:no-kvp here", "breadlog:ignore.", "breadlog:ignore breadlog:ignore"])
    if d == "near_spelling":
        return rnd.choice(["breadlog: ignore", "breadlog-ignore", "breadlog:ignored", "breadlog:no_kvp", "breadlog:nokvp",
                           "bread log:ignore", "breadlog:ignor", "breadlog:no-kv", "breadlog :ignore"])
    if d == "near_prefix":
        return rnd.choice(["xbreadlog:ignore", "breadlog:ignorex", "#breadlog:ignore", "breadlog:no-kvpx"])
    return "an ordinary remark"


def comment(text, row, rnd):
    t = text
    if row["case"] == "upper":
        t = t.upper()
    elif row["case"] == "mixed":
        t = "".join(c.upper() if i % 2 else c.lower() for i, c in enumerate(t))
    pad = {"one": " ", "none": "", "many": "     ", "tabs": "\t \t",
           "unicode": rnd.choice(["\u00a0", "\u3000", "\x0b", "\x0c", "\u2003\u00a0", "\u2028", "\u0085"])}[row["pad"]]
    if row["cstyle"] == "line":
        return "//" + pad + t + pad
    return "/*" + pad + t + pad + "*/"


def effect_of(row):
    """Model of the rule: which effect the directive line has on the statements of the subject line."""
    if row["between"] == "other_directive":
        # the nearest non-blank line is the *other* (always genuine) directive, whatever lies above it
        return "no-kvp" if row["directive"] == "ignore" else "ignore"
    if row["directive"] not in ("ignore", "no-kvp"):
        return "none"
    if row["between"] in ("code_line", "attribute_line", "code_then_comment", "comment_line", "directive_after", "directive_trailing"):
        return "none"
    return row["directive"]


def build(fileseed, rows, eol):
    rnd = core.rng_for("c14file", fileseed)
    gf = gen.GenFile(eol)
    meta = []   # (item, expected_effect, row, role)
    n = 0
    ind_of = {"none": "", "spaces": "      ", "tab": "\t"}

    def stmt(multiline, role, row, eff, pre="", spelling="tight"):
        nonlocal n
        n += 1
        f = dict(gen.NEUTRAL)
        hi_ref = None
        if eff == "ignore" and role == "subject" and hash(fileseed) % 4 != 0 and rnd.random() < 0.3 and not row.get("literal"):      # (not in trees that also hold a twin file)
            # an ignored statement that happens to carry a (large) reference: skipped means skipped - it must not steer the numbering
            hi_ref = 3000000000 + n
        f["bang"] = {"name_then_newline": "nl", "spaced": "both", "comment_between": "cm"}.get(spelling, "tight")
        f["lay"] = (multiline if isinstance(multiline, str) else "nl") if multiline else "tight"
        f["nkv"] = rnd.choice([0, 1, 2])
        f["target"] = rnd.choice(["none", "plain"])
        f["pre"] = "bol"
        if hi_ref:
            f["ref"] = "valid"
        _, st, post = gen.build_stmt(f, "S%s_%d" % (fileseed, n), rnd, eol=eol, ref_id=hi_ref)
        gf.raw(pre)
        it = gf.add_stmt("", st, post)
        meta.append((it, eff, row, role))
        return it

    file_start = (rnd.random() < 0.5)     # the first placement sits at the very start of the file (line 1, offset 0)
    if not file_start and rnd.random() < 0.5:
        # multi-byte text earlier in the file (byte offsets and character counts drift apart by dozens)
        gf.raw("// Überschrift: 日本語のコメント — ÄÖÜäöüß éèêë ñ ç 𝓤𝓷𝓲𝓬𝓸𝓭𝓮 😀😀😀" + eol)
    if not file_start:
        gf.raw("fn generated() {" + eol)
    for ri, row in enumerate(rows):
        ind = ind_of[row["indent"]]
        eff = effect_of(row)
        dtext = comment(directive_text(row["directive"], rnd), row, rnd)
        other = comment("breadlog:no-kvp" if row["directive"] == "ignore" else "breadlog:ignore", row, rnd)
        b = row["between"]
        # a guard statement before the block: must never be affected
        if not (file_start and ri == 0):
            stmt(False, "guard_before", row, "none", pre="    ")
            gf.newline()
        if b == "code_with_trailing_directive":
            # the nearest non-blank line above is a code line that ends in the comment: the comment is on that line all the same
            if row.get("literal") == "opener_in_literal_before_directive" or (not row.get("literal") and rnd.random() < 0.25):
                # ... also when a string literal in that code holds the characters of a comment opener. (Judged by a clause of its own:
                # finding D24 - the tool looks for the comment textually.)
                row = dict(row, literal="opener_in_literal_before_directive")
                # (only `//`: an unclosed `/*` inside a literal hides the rest of the file from the tool - that is finding D13, C10's)
                gf.raw(ind + rnd.choice(["let u = \"http://host/\"; ", "fetch(\"https://example.org/a//b\")?; "]) + dtext + eol)
            else:
                gf.raw(ind + rnd.choice(["let n = buf.len(); ", "buf.clear(); ", "} ", "x += 1;\t",
                                         # code holding quote characters, in odd and even numbers
                                         "let is_quote = c == '\"'; ", "let s = \"a \\\" b\"; ", "let r = r#\"say \"hi\"#; ",
                                         "let q = ('\\'', '\"', \"'\"); ", "let b = b'\"'; "]) + dtext + eol)
        elif b not in ("directive_after", "directive_trailing"):
            gf.raw(ind + dtext + eol)
            if b == "code_line" and ((row.get("literal") or "").startswith("directive_comment_text") or (not row.get("literal") and rnd.random() < 0.12)):
                # a string literal whose text reads like a directive comment is code, not a comment (clause of its own: finding D24)
                word = row["directive"] if row["directive"] in ("ignore", "no-kvp") else "ignore"
                row = dict(row, literal="directive_comment_text_in_literal:" + word)
                gf.raw(ind + "let example = \"/* breadlog:%s */\";" % word + eol)
            elif b == "code_line":
                gf.raw(ind + rnd.choice(["let between = 1;", "let between = 1;", "}", "};", "loop {", ".await;", ")",
                                         "r#\"raw\"#;", "x /* remark */ ;", "\"breadlog:ignore\";", "let s = \"// breadlog:ignore\";",
                                         "let is_quote = c == '\"';"]) + eol)
            elif b == "attribute_line":
                gf.raw(ind + rnd.choice(["#[allow(unused)]", "#[cfg(debug_assertions)]", "#![allow(dead_code)]", "#[inline]",
                                         "#[doc = \"breadlog:ignore\"]"]) + eol)
            elif b == "code_then_comment":
                gf.raw(ind + "let between = 1; // an ordinary remark" + eol)
            elif b == "comment_line":
                gf.raw(ind + "// just a remark" + eol)
            elif b == "other_directive":
                gf.raw(ind + other + eol)
        for _ in range(row["blanks"]):
            gf.raw(rnd.choice(["", "   ", "\t", "\x0c", "\u00a0 ", " \t \u2003", " " * rnd.choice([3, 40, 300])]) + eol)
        # subject line
        gf.raw(ind)
        if row["mb"] == "before_on_line":
            gf.raw("/* 世界 é */ ")
        elif row["mb"] == "unicode_neighbour":
            gf.raw('é!("neighbour"); ')
        elif row["mb"] == "code_before":
            # the statement is not the first thing on its line (match arm, one-line if, let, return)
            gf.raw(rnd.choice(["Err(e) => ", "if verbose { ", "let _r = ", "return ", "Some(v) => { v; ", "x.iter().for_each(|v| "]))
        # a statement spread over several lines closes either with the bracket on a line of its own or right after its last argument
        ml = rnd.choice(["nl", "nlhug", "linec"]) if row["multiline"] else False
        for k in range(row["nstmts"]):
            last = (k == row["nstmts"] - 1)
            stmt(ml if last else False, "subject", row, eff, pre=" " if k else "",
                 spelling=row.get("spelling", "tight") if last else "tight")
        if ml and rnd.random() < 0.6:
            # another statement on the line on which the multi-line one closes: it starts on a different line, and the line before that
            # one is part of the statement above (code) - no directive reaches it
            stmt(False, "tail_on_closing_line", row, "none", pre=" ")
        if b == "directive_trailing":
            gf.raw(" " + comment(directive_text(row["directive"], rnd), dict(row, cstyle="line"), rnd))
        gf.newline()
        if b == "directive_after":
            gf.raw(ind + dtext + eol)
        if b in ("directive_after", "directive_trailing"):
            gf.raw(ind + "let after = 2;" + eol)   # so that the directive does not precede the guard below
        # the next statement (next line) must be unaffected: scope must not leak
        stmt(False, "guard_after", row, "none", pre=ind)
        gf.newline()
        gf.raw("    let sep = 0;" + eol)
        if file_start and ri == 0:
            gf.raw("fn generated() {" + eol)
    gf.raw("}" + eol)
    return gf, meta


def judge_one(it, eff, structured, fo):
    st = it.stmt
    a, b = it.start, it.end
    rep = [o for o in fo.reported if a <= o < b]
    ins = [t for t in fo.tokens if a <= t["off"] < b]
    if eff == "ignore":
        if rep:
            return "ignored-but-reported"
        if ins:
            return "ignored-but-edited"
        return None
    nokvp = (eff == "no-kvp")
    lo, hi = lab.expected_region(st, a, structured, no_kvp=nokvp)
    want = "kv" if (structured and not nokvp) else "msg"
    if not any(lo <= o <= hi for o in rep):
        return "not-reported" if not rep else "reported-at-wrong-place"
    good = [t for t in ins if lo <= t["off"] <= hi and t["style"] == want]
    if len(ins) != 1 or not good:
        if not ins:
            return "not-edited"
        return "wrong-style-or-place(%s)" % ins[0]["style"]
    if want == "kv" and not good[0]["tok"].endswith(b"; " if st.nkv_total == 0 else b", "):
        return "wrong-separator"
    return None


RE_DIRECTIVE_WORD = None


def twin_of(data):
    """The same file, byte for byte the same length, with every directive word spoilt (ignore -> ignorf, no-kvp -> no-kvq)."""
    import re
    global RE_DIRECTIVE_WORD
    if RE_DIRECTIVE_WORD is None:
        RE_DIRECTIVE_WORD = re.compile(rb"(?i)(breadlog\s*:\s*)(ignore|no-kvp)")
    return RE_DIRECTIVE_WORD.sub(lambda m: m.group(1) + m.group(2)[:-1] + (b"f" if m.group(2)[-1:] in b"eE" else b"q"), data)


def work(job):
    built, fileseed, rows, structured, eol = job
    gf, meta = build(fileseed, rows, eol)
    files = {"src/f.rs": gf.data()}
    twin = None
    if hash(fileseed) % 4 == 0:
        # a second file with the same skeleton (every statement at the same byte offset) but without any genuine directive, processed
        # before or after the first: nothing may carry over from one file to the next
        twin = "src/a_twin.rs" if hash(fileseed) % 8 == 0 else "src/z_twin.rs"
        files[twin] = twin_of(gf.data())
    minis = []
    if hash(fileseed) % 3 == 0:
        # pairs of one-statement files written from one skeleton (the only statement of each at the same byte offset), one with a
        # genuine directive above the statement, one with the directive word spoilt; in both directory orders
        mr = core.rng_for("c14mini", fileseed)
        for j, d in enumerate(["ignore", "no-kvp"]):
            gm = gen.GenFile(eol)
            gm.raw("// module %d%s" % (j, eol) + "fn run() {" + eol)
            gm.raw("    " + comment("breadlog:" + d, rows[0], mr) + eol)
            f = dict(gen.NEUTRAL)
            f["nkv"] = mr.choice([0, 1])
            _, st, post = gen.build_stmt(f, "Mini%s_%d" % (fileseed, j), mr, eol=eol)
            gm.raw("    ")
            it = gm.add_stmt("", st, post)
            gm.newline()
            gm.raw("}" + eol)
            first, second = ("src/k%d_a.rs" % j, "src/k%d_b.rs" % j) if mr.random() < 0.5 else ("src/k%d_b.rs" % j, "src/k%d_a.rs" % j)
            files[first] = gm.data()
            files[second] = twin_of(gm.data())
            minis.append((first, it, d))
            minis.append((second, it, "none"))
    with core.Box(tag="c14") as box:
        cfg = core.make_config(structured=True if structured else None, use_cache=False)
        out = lab.run_tree(built, box, files, cfg, trace=False)
    fo = out.files["src/f.rs"]
    res = {"evaluations": 2, "nontrivial": [], "violations": [], "samples": [], "inconclusive": {}, "counters": {}}
    hi = [t for t in fo.tokens if t["id"] >= 3000000000]
    if hi:
        res["violations"].append({"signature": "C14.ignored-statement-steers-the-numbering|%s" % ("structured" if structured else "unstructured"),
                                  "detail": {"inserted_ids": sorted(t["id"] for t in hi)[:4], "note": "an ignored statement carries [ref: 3000000000+k]"},
                                  "case": {"rows": rows, "structured": structured, "eol": eol, "fileseed": fileseed}})
    if out.edit.rc not in (0, None) and any(getattr(it.stmt, "ref_msg", None) and it.stmt.ref_msg >= 3000000000 for it, _, _, _ in meta):
        pass
    for rel, it, eff in minis:
        fm = out.files[rel]
        if fm.tokens is None or out.check.panicked() or out.edit.panicked():
            continue
        res["counters"]["one_statement_twin_files"] = res["counters"].get("one_statement_twin_files", 0) + 1
        clause = judge_one(it, eff, structured, fm)
        if clause:
            res["violations"].append({"signature": "C14.%s|one-statement-file-next-to-its-twin|expected=%s|%s" % (clause, eff, "structured" if structured else "unstructured"),
                                      "detail": {"file": rel, "content": files[rel], "other_files": sorted(files)},
                                      "case": {"rows": rows, "structured": structured, "eol": eol, "fileseed": fileseed}})
            break
    if twin:
        res["counters"]["twin_files"] = 1
        ft = out.files[twin]
        if ft.tokens is not None and not (out.check.panicked() or out.edit.panicked()):
            for it, eff, row, role in meta:
                clause = judge_one(it, "none", structured, ft)
                if clause:
                    res["violations"].append({"signature": "C14.%s|%s|in-a-twin-file-without-directives|%s" % (clause, role, "structured" if structured else "unstructured"),
                                              "detail": {"statement": it.stmt.text, "twin": twin, "row": row,
                                                         "context": files[twin][max(0, it.start - 160):it.end + 20]},
                                              "case": {"rows": rows, "structured": structured, "eol": eol, "fileseed": fileseed}})
                    break
    if out.check.panicked() or out.edit.panicked():
        # a crash caused by this workload's own content is C17's finding; here the placements are inconclusive
        res["inconclusive"]["run-crashed (C17's business)"] = 1
        return res
    if fo.tokens is None:
        res["inconclusive"]["prerequisite C03 failed (decomposition)"] = 1
        return res
    for it, eff, row, role in meta:
        clause = judge_one(it, eff, structured, fo)
        key = json.dumps([sorted((k, v) for k, v in row.items() if k != "structured"), structured, role])
        res["nontrivial"].append(key)
        res["counters"]["effect_" + eff] = res["counters"].get("effect_" + eff, 0) + 1
        if clause:
            nn = {k: v for k, v in row.items() if k in ("directive", "cstyle", "between", "blanks", "nstmts", "multiline", "mb", "spelling")}
            sig = "C14.%s|%s|expected=%s|%s|%s" % (clause, role, eff, "structured" if structured else "unstructured",
                                                  ",".join("%s=%s" % kv for kv in sorted(nn.items())))
            if row.get("literal") and role == "subject":
                # comment openers / directive text inside string literals on the line above: one signature per (literal class, expected
                # effect, what was observed instead), independent of the other coordinates
                sig = "C14.%s|subject|expected=%s|line-above:%s" % (clause, eff, row["literal"])
            res["violations"].append({"signature": sig,
                                      "detail": {"statement": it.stmt.text, "role": role, "expected_effect": eff, "row": row,
                                                 "context": gf.data()[max(0, it.start - 160):it.end + 20]},
                                      "case": {"rows": [row], "structured": structured, "eol": eol}})
    if fileseed.endswith("-0") or fileseed.endswith("-1") or fileseed.endswith("-2"):
        for it, eff, row, role in meta[:6]:
            if role == "subject":
                res.setdefault("samples" if fileseed.endswith("-0") else "samples_fallback", []).append({"row": row, "expected_effect": eff,
                                       "context": gf.data()[max(0, it.start - 120):it.end],
                                       "reported": [o for o in fo.reported if it.start <= o < it.end],
                                       "tokens": [(t["off"] - it.start, t["tok"]) for t in fo.tokens if it.start <= t["off"] < it.end]})
    return res


def main(tier):
    ck = frame.Check(PROP, tier, "exploration", replay_fn=replay_witness)
    built = core.build_repo()
    ck.built = built
    rnd = core.rng_for("c14", ck.seed, tier)
    dims = dict(DIMS)
    rows = list(gen.covering_rows(dims, 2, rnd, candidates=10))
    if tier == "thorough":
        rows += list(gen.covering_rows(dims, 3, rnd, candidates=4))
    extra = 15000 if tier == "quick" else 600000
    rows += [{k: rnd.choice(v) for k, v in dims.items()} for _ in range(extra)]
    rnd.shuffle(rows)
    jobs = []
    byst = {False: [r for r in rows if not r["structured"]], True: [r for r in rows if r["structured"]]}
    n = 0
    for structured, rs in byst.items():
        # half of the rows go to files whose directives all share one letter case (a per-file effect - e.g. a case-sensitive
        # pre-filter - would be masked by one lower-case directive elsewhere in the file); the other half stays mixed
        half = len(rs) // 2
        homog = sorted(rs[:half], key=lambda r: r["case"])
        for r in homog:
            if r["case"] == "upper":
                r["directive"] = r["directive"] if r["directive"] in ("ignore", "no-kvp", "none") else "ignore"
        rs = homog + rs[half:]
        for i in range(0, len(rs), 10):
            jobs.append((built, "%d-%d" % (ck.seed, n), rs[i:i + 10], structured, "\r\n" if n % 4 == 3 else "\n"))
            n += 1
    for res in frame.pmap(work, jobs, chunksize=4):
        ck.absorb(res)
    req, cov = gen.tuple_coverage(rows, dims, 2)
    ck.extra.update({"dimensions": {k: len(v) for k, v in dims.items()}, "pairs_required": req, "pairs_covered": cov,
                     "placements": len(rows), "files": len(jobs)})
    ck.rule = ("placements = rows over (directive kind, comment style, case, padding, indentation, blank lines, what lies "
               "between, statements on the line, multi-line, multi-byte context, style), pairwise-covering + random; each "
               "placement has a guard statement before, 1-3 subject statements and a guard after; one case = one statement "
               "judged against an independent model of the directive rule; distinct_nontrivial = distinct (row, role)")
    ck.assumptions = ["model: nearest non-blank line above consists solely of a // or single-line /* */ comment whose "
                      "trimmed case-folded text equals the directive",
                      "a directive comment that trails code on the nearest non-blank line above counts (it is a comment on that line); doc "
                      "comments and multi-line block comments are don't-care (not generated)",
                      "string literals holding `//` or directive-comment text on the line above are judged by clauses of their own (finding D24)"]
    return ck.finish()


def replay_witness(w, ck=None, built=None):
    built = built or (ck.built if ck else None) or core.build_repo()
    c = w["case"] if "case" in w else w["first"]["case"]
    r = work((built, c.get("fileseed", "replay"), c["rows"], c["structured"], c["eol"]))
    return bool(r["violations"])


def replay(path):
    failing = replay_witness(json.load(open(path)))
    print("replay %s: %s" % (path, "VIOLATION reproduced" if failing else "no violation"))
    if failing:
        print("VIOLATION property=%s replay=%s" % (PROP, path))
    return 1 if failing else 0
