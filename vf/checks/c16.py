"""C16 - configuration switches and defaults mean what the guide says (exhaustive product)."""
import zlib, itertools
import json
import os

from .. import core, frame, gen, lab
from ..decomp import decompose

PROP = "C16"

USE_CACHE = ["omitted", "true", "false"]
STRUCT = ["omitted", "true", "false"]
EXTS = ["omitted", "rs", "rs+x", "x", "rs+x+rs"]      # the last one lists an extension twice: same meaning as rs+x      # (an explicit empty list is an error exit, below)
LOCK = ["absent", "valid_ahead", "corrupt", "empty", "out_of_range", "negative", "float", "conflict_markers", "line_plus_junk", "nested_key",
        # a scratch copy of the lock left behind by a killed run is not the lock: same expectations as without it
        "absent+stale_scratch", "valid_ahead+stale_scratch",
        # a valid lock reached through a symbolic link; locks that are not text at all (UTF-16 as a PowerShell redirect writes it,
        # a Latin-1 byte, binary junk): unparsable, hence ignored
        "valid_ahead_via_symlink", "utf16", "latin1_byte", "binary", "valid_ahead_readonly", "duplicate_key",
        # a valid lock that is longer than anything the tool writes: a licence header put in front of it by a header tool (260 bytes to
        # 70 KiB, so that the key lies beyond any fixed-size first read), the same text after the key, CRLF line ends
        "valid_ahead_long_header", "valid_ahead_long_trailer", "valid_ahead_crlf"]
MODE = ["check", "edit"]
TREE = ["missing", "none_missing"]
LOCKVAL = 1000

FILES_MISSING = {
    "src/a.rs": b'fn a() {\n    info!(ref = 3; "[ref: 3] has both");\n    warn!("needs one in a");\n}\n',
    "src/sub/c.rs": b'fn c() {\n    error!(k = 1; "needs one in c");\n    log::info!("and another");\n}\n',
    "src/b.x": b'fn b() {\n    info!("needs one in b.x");\n}\n',
    "src/readme.md": b'info!("not source");\n',
}
FILES_NONE = {
    "src/a.rs": b'fn a() {\n    info!(ref = 3; "[ref: 3] has both");\n}\n',
    "src/sub/c.rs": b'fn c() {\n    error!(ref = 2, k = 1; "[ref: 2] has both too");\n}\n',
    "src/b.x": b'fn b() {\n    info!(ref = 1; "[ref: 1] in b.x");\n}\n',
    "src/readme.md": b'info!("not source");\n',
}
LOCK_TEXT = {"absent": None, "valid_ahead": core.lock_text(LOCKVAL), "corrupt": "next_reference_id: [not, a, number\n# torn",
             "empty": "",
             # numbers that are not a u32: the lock cannot be parsed and must be ignored
             "out_of_range": core.LOCK_HEADER + "next_reference_id: 4294967303\n",
             "negative": core.LOCK_HEADER + "next_reference_id: -3\n",
             "float": core.LOCK_HEADER + "next_reference_id: 12.5\n",
             # unparsable as a whole although a well-formed-looking line is in there
             "conflict_markers": core.LOCK_HEADER + "<<<<<<< HEAD\nnext_reference_id: 2\n=======\nnext_reference_id: 2000\n>>>>>>> feature\n",
             "line_plus_junk": core.LOCK_HEADER + "next_reference_id: 2\n}}} not yaml {{{ : :\n\t- [\n",
             "nested_key": core.LOCK_HEADER + "cache:\n  next_reference_id: 2\n",
             "absent+stale_scratch": None, "valid_ahead+stale_scratch": core.lock_text(LOCKVAL),
             "valid_ahead_via_symlink": core.lock_text(LOCKVAL), "valid_ahead_readonly": core.lock_text(LOCKVAL),
             "valid_ahead_long_header": core.lock_text(LOCKVAL), "valid_ahead_long_trailer": core.lock_text(LOCKVAL),
             "valid_ahead_crlf": core.lock_text(LOCKVAL),
             "utf16": b"\xff\xfe" + core.lock_text(2).encode("utf-16-le"),
             "latin1_byte": (core.LOCK_HEADER + "# gr\xfc\xdfe\nnext_reference_id: 2\n").encode("latin-1"),
             "binary": bytes(range(256)) * 3,
             # a merge conflict "resolved" by deleting only the marker lines: the key twice, not a valid lock
             "duplicate_key": core.LOCK_HEADER + "next_reference_id: 2000\nnext_reference_id: 2\n"}


def expected(p):
    uc, st, ex, lk, mode, tree = p[:6]
    LOCKVAL = p[6] if len(p) > 6 else 1000
    cache = uc != "false"
    structured = st == "true"
    exts = {"omitted": ["rs"], "rs": ["rs"], "rs+x": ["rs", "x"], "x": ["x"], "rs+x+rs": ["rs", "x"]}[ex]
    files = FILES_MISSING if tree == "missing" else FILES_NONE
    scope = sorted(r for r in files if r.rsplit(".", 1)[-1] in exts)
    nmiss = 0
    existing = []
    if tree == "missing":
        per = {"src/a.rs": 1, "src/sub/c.rs": 2, "src/b.x": 1}
        nmiss = sum(per[r] for r in scope)
        if "src/a.rs" in scope:
            existing.append(3)
    else:
        existing = [{"src/a.rs": 3, "src/sub/c.rs": 2, "src/b.x": 1}[r] for r in scope]
    lock_valid = cache and lk.startswith("valid_ahead")
    start = LOCKVAL if lock_valid else ((max(existing) + 1) if existing else 1)
    return dict(cache=cache, structured=structured, exts=exts, scope=scope, nmiss=nmiss, start=start,
                lock_valid=lock_valid, files=files)


def config_text(p, source_dir="src"):
    uc, st, ex, lk, mode, tree = p[:6]
    return core.make_config(source_dir=source_dir,
                            use_cache=None if uc == "omitted" else (uc == "true"),
                            structured=None if st == "omitted" else (st == "true"),
                            extensions=None if ex == "omitted" else {"rs": ["rs"], "rs+x": ["rs", "x"], "x": ["x"], "rs+x+rs": ["rs", "x", "rs"]}[ex])


def run_point(built, p, cfgform="absolute"):
    uc, st, ex, lk, mode, tree = p[:6]
    LOCKVAL = p[6] if len(p) > 6 else 1000
    exp = expected(p)
    v = []
    with core.Box(tag="c16") as box:
        for rel, data in exp["files"].items():
            box.write(rel, data)
        cfg = box.write("Breadlog.yaml", config_text(p))
        lockp = os.path.join(box.proj, "Breadlog.lock")
        if LOCK_TEXT[lk] is not None:
            text = core.lock_text(LOCKVAL) if lk.startswith("valid_ahead") else LOCK_TEXT[lk]
            target = lockp
            if lk in ("valid_ahead_long_header", "valid_ahead_long_trailer"):
                size = [260, 700, 9000, 70000][zlib.crc32(repr(p).encode()) % 4]
                licence = "# SPDX-License-Identifier: MIT\n# Copyright (c) the project authors\n" + \
                          "".join("# licence text, line %d of a header a header tool keeps in front of every file\n" % i for i in range(size // 80 + 1))
                text = (licence + text) if lk.endswith("header") else (text + licence)
            if lk == "valid_ahead_crlf":
                text = text.replace("\n", "\r\n")
            if lk == "valid_ahead_via_symlink":
                target = os.path.join(box.proj, "shared", "workspace.lock")
                os.makedirs(os.path.dirname(target))
                os.symlink(os.path.join("shared", "workspace.lock"), lockp)
            with open(target, "wb") as f:
                f.write(text if isinstance(text, bytes) else text.encode())
            if lk == "valid_ahead_readonly":
                os.chmod(target, 0o444)       # permission bits of the lock are not part of its meaning
        if lk.endswith("+stale_scratch"):
            open(lockp + ".tmp", "w").write([core.lock_text(2), core.lock_text(5000), core.LOCK_HEADER, ""][hash(tuple(p)) % 4])
        before = core.snapshot(box.root)
        # how the configuration file is named on the command line must not matter
        cwd, carg = None, None
        if cfgform == "bare":
            cwd, carg = box.proj, "Breadlog.yaml"
        elif cfgform == "dotslash":
            cwd, carg = box.proj, "./Breadlog.yaml"
        elif cfgform == "from_parent":
            cwd, carg = box.root, "proj/Breadlog.yaml"
        elif cfgform == "from_subdir":
            cwd, carg = os.path.join(box.proj, "src"), "../Breadlog.yaml"
        r = core.run_breadlog(built, box, cfg, check=(mode == "check"), shim=True, cwd=cwd, cfg_arg=carg)
        after = core.snapshot(box.root)
        diff = core.snap_diff(before, after, meta=False)
        lock_after = core.read_lock(lockp)
        lock_bytes_before = before.get("proj/Breadlog.lock", (None,) * 7)[6]
        lock_bytes_after = after.get("proj/Breadlog.lock", (None,) * 7)[6]
    if r.panicked() or r.timed_out:
        return None, exp, r, None
    obs = {"exit": r.rc, "diff": diff, "lock_after": lock_after}
    # did the run read the lock? (shim: an open of the lock file)
    lock_opened = any(o["path"].endswith("/Breadlog.lock") for o in (r.shim or []))
    obs["lock_opened"] = lock_opened
    changed = {p_ for p_, _ in diff}
    src_changed = sorted(c for c in changed if c.startswith("proj/src/"))
    other_changed = sorted(c for c in changed if not c.startswith("proj/src/") and c != "proj/Breadlog.lock"
                           # replacing the lock goes through its scratch name: an edit run with the cache on may consume a stale one
                           and not (c == "proj/Breadlog.lock.tmp" and exp["cache"] and mode == "edit")
                           # a lock that is a symbolic link may be updated through the link or replaced by a regular file
                           and not (c == "proj/shared/workspace.lock" and exp["cache"] and mode == "edit"))
    if other_changed:
        v.append(("unrelated-file-changed", {"paths": other_changed}))
    if not exp["cache"]:
        if "proj/Breadlog.lock" in changed:
            v.append(("cache-disabled-but-lock-touched", {"diff": [d for d in diff if d[0] == "proj/Breadlog.lock"]}))
        if lock_opened:
            v.append(("cache-disabled-but-lock-opened", {}))
    if mode == "check":
        if changed:
            v.append(("check-mode-changed-files", {"paths": sorted(changed)}))
        want_fail = exp["nmiss"] > 0
        if (r.rc != 0) != want_fail:
            v.append(("check-exit-status", {"exit": r.rc, "missing_in_scope": exp["nmiss"], "scope": exp["scope"]}))
        tm = r.total_missing()
        if tm is not None and tm != exp["nmiss"]:
            v.append(("check-total", {"total": tm, "expected": exp["nmiss"], "scope": exp["scope"]}))
    else:
        if r.rc != 0:
            v.append(("edit-exit-nonzero", {"exit": r.rc, "stdout": r.out[-300:]}))
        # which files changed and how
        toks_all = []
        for rel in exp["files"]:
            b = exp["files"][rel]
            a = after.get("proj/" + rel, (None,) * 7)[6]
            if a is None:
                v.append(("file-vanished", {"file": rel}))
                continue
            t = decompose(b, a)
            if t is None:
                return "c03", exp, r, obs
            if t and rel not in exp["scope"]:
                v.append(("out-of-scope-file-edited", {"file": rel, "extensions": exp["exts"]}))
            toks_all += [(rel, x) for x in t]
        if len(toks_all) != exp["nmiss"] and not any(c[0] == "out-of-scope-file-edited" for c in v):
            v.append(("insert-count", {"inserted": len(toks_all), "expected": exp["nmiss"], "scope": exp["scope"]}))
        want_style = "kv" if exp["structured"] else "msg"
        wrong = [x["tok"] for _, x in toks_all if x["style"] != want_style]
        if wrong:
            v.append(("token-style", {"want": want_style, "got": wrong[:2]}))
        ids = sorted(x["id"] for _, x in toks_all)
        if ids and ids != list(range(exp["start"], exp["start"] + len(ids))):
            why = "lock-value-not-used" if exp["lock_valid"] else ("unparsable-or-disabled-lock-not-ignored" if LOCK_TEXT[(p[3])] is not None else ("stale-scratch-copy-used" if p[3].endswith("stale_scratch") else "scan-start"))
            v.append(("id-start:" + why, {"ids": ids, "expected_start": exp["start"]}))
        if exp["cache"]:
            if exp["nmiss"] > 0:
                want = exp["start"] + exp["nmiss"]
                if lock_after != ("ok", want):
                    v.append(("lock-not-written-after-inserting-run", {"lock_after": lock_after, "expected": want}))
            else:
                # idle run: the lock may be rewritten but must not change its meaning
                if exp["lock_valid"] and lock_after != ("ok", LOCKVAL):
                    v.append(("idle-run-changed-lock-value", {"lock_after": lock_after}))
    return v, exp, r, obs


def work(job):
    built, p = job[:2]
    cfgform = job[2] if len(job) > 2 else "absolute"
    res = {"evaluations": 1, "nontrivial": [], "violations": [], "samples": [], "inconclusive": {}, "counters": {}}
    v, exp, r, obs = run_point(built, p, cfgform)
    if v is None:
        res["inconclusive"]["run-crashed (C17's business)"] = 1
        return res
    if v == "c03":
        res["inconclusive"]["prerequisite C03 failed (decomposition)"] = 1
        return res
    res["nontrivial"].append("|".join(str(x) for x in p) + "|" + cfgform)
    if cfgform != "absolute":
        res["counters"]["invocation_form_points"] = 1
    res["counters"]["points"] = 1
    for clause, detail in v:
        uc, st, ex, lk, mode, tree = p[:6]
        res["violations"].append({"signature": "C16.%s|use_cache=%s|structured=%s|extensions=%s|lock=%s|%s|%s%s" % (clause, uc, st, ex, lk, mode, tree, "" if cfgform == "absolute" else "|config-arg=" + cfgform),
                                  "detail": dict(detail, point=p, exit=r.ended(), config_arg=cfgform), "case": {"point": list(p), "cfgform": cfgform}})
    if tuple(p[:6]) in (("omitted", "omitted", "omitted", "absent", "edit", "missing"), ("false", "true", "rs+x", "corrupt", "edit", "missing")):
        res["samples"].append({"point": dict(zip(["use_cache", "structured", "extensions", "lock", "mode", "tree"], p)),
                               "expected": {k: exp[k] for k in ("cache", "structured", "exts", "scope", "nmiss", "start")},
                               "observed": obs})
    return res


ERRORS = ["missing_config", "invalid_yaml", "yaml_wrong_type", "missing_source_dir", "source_dir_is_file", "no_in_scope_files",
          "empty_source_dir", "missing_required_key", "explicit_empty_extensions", "use_cache_not_a_bool",
          "rust_without_log_macros", "log_macros_misspelt", "rust_is_a_list", "macro_entry_without_name",
          "source_dir_misspelt", "empty_file", "config_is_a_directory", "yaml_is_a_scalar", "structured_not_a_bool",
          "extensions_not_a_list", "tab_indented", "binary_garbage", "extension_with_dot", "use_cache_quoted", "structured_yes",
          "two_documents", "use_cache_null", "structured_null", "extensions_null", "config_is_a_dangling_symlink", "config_is_a_fifo_free_special"]


def error_work(job):
    built, kind, mode = job[:3]
    with_lock = job[3] if len(job) > 3 else False
    cwd_trap = job[4] if len(job) > 4 else False
    res = {"evaluations": 1, "nontrivial": [], "violations": [], "samples": [], "inconclusive": {}, "counters": {}}
    with core.Box(tag="c16e") as box:
        for rel, data in FILES_MISSING.items():
            box.write(rel, data)
        if with_lock:
            box.write("Breadlog.lock", core.lock_text(77))
        cfgp = os.path.join(box.proj, "Breadlog.yaml")
        if kind == "missing_config":
            pass
        elif kind == "invalid_yaml":
            box.write("Breadlog.yaml", "---\n: this is invalid\n  - [\n")
        elif kind == "yaml_wrong_type":
            box.write("Breadlog.yaml", "---\nsource_dir: src\nuse_cache: maybe\nrust:\n  log_macros: 5\n")
        elif kind == "missing_required_key":
            box.write("Breadlog.yaml", "---\nuse_cache: true\nrust:\n  log_macros:\n    - module: log\n      name: info\n")
        elif kind == "missing_source_dir":
            box.write("Breadlog.yaml", core.make_config(source_dir="nowhere"))
        elif kind == "source_dir_is_file":
            box.write("Breadlog.yaml", core.make_config(source_dir="src/a.rs"))
        elif kind == "no_in_scope_files":
            box.write("Breadlog.yaml", core.make_config(extensions=["zz"]))
        elif kind == "explicit_empty_extensions":
            box.write("Breadlog.yaml", core.make_config(extra="  extensions: []\n"))
        elif kind == "use_cache_not_a_bool":
            box.write("Breadlog.yaml", core.make_config().replace("source_dir: src\n", "source_dir: src\nuse_cache: [1, 2]\n"))
        elif kind == "rust_without_log_macros":
            box.write("Breadlog.yaml", "---\nsource_dir: src\nrust:\n  structured: false\n  extensions:\n    - rs\n")
        elif kind == "log_macros_misspelt":
            box.write("Breadlog.yaml", core.make_config().replace("log_macros:", "log-macros:"))
        # (`log_macros:` with no value is read as an empty list, i.e. a valid configuration without macros: not an error case)
        elif kind == "rust_is_a_list":
            box.write("Breadlog.yaml", "---\nsource_dir: src\nrust:\n  - module: log\n    name: info\n")
        elif kind == "macro_entry_without_name":
            box.write("Breadlog.yaml", "---\nsource_dir: src\nrust:\n  log_macros:\n    - module: log\n")
        elif kind == "source_dir_misspelt":
            box.write("Breadlog.yaml", core.make_config().replace("source_dir:", "sourcedir:"))
        elif kind == "empty_file":
            box.write("Breadlog.yaml", "")
        elif kind == "config_is_a_directory":
            os.makedirs(cfgp)
        elif kind == "yaml_is_a_scalar":
            box.write("Breadlog.yaml", "just some text\n")
        elif kind == "structured_not_a_bool":
            box.write("Breadlog.yaml", core.make_config().replace("rust:\n", "rust:\n  structured: sometimes\n"))
        elif kind == "extensions_not_a_list":
            box.write("Breadlog.yaml", core.make_config(extra="  extensions: rs\n"))
        elif kind == "tab_indented":
            box.write("Breadlog.yaml", core.make_config().replace("  log_macros", "\tlog_macros"))
        elif kind == "binary_garbage":
            box.write("Breadlog.yaml", b"\x00\xff\xfe---\nsource_dir: src\n\x80\x81")
        elif kind == "extension_with_dot":
            box.write("Breadlog.yaml", core.make_config(extensions=[".rs"]))        # never equals a file's extension: no in-scope files
        elif kind == "use_cache_quoted":
            box.write("Breadlog.yaml", core.make_config().replace("source_dir: src\n", "source_dir: src\nuse_cache: \"true\"\n"))
        elif kind == "structured_yes":
            box.write("Breadlog.yaml", core.make_config().replace("rust:\n", "rust:\n  structured: yes\n"))
        # (`source_dir: ""` is the configuration directory itself - a valid configuration, not an error case)
        elif kind == "use_cache_null":
            box.write("Breadlog.yaml", core.make_config().replace("source_dir: src\n", "source_dir: src\nuse_cache:\n"))
        elif kind == "structured_null":
            box.write("Breadlog.yaml", core.make_config().replace("rust:\n", "rust:\n  structured: ~\n"))
        elif kind == "extensions_null":
            box.write("Breadlog.yaml", core.make_config(extra="  extensions:\n"))
        # (`source_dir:` without a value is read like the empty string, i.e. the configuration directory: valid)
        elif kind == "two_documents":
            box.write("Breadlog.yaml", core.make_config() + "---\nsource_dir: other\n")
        elif kind == "config_is_a_dangling_symlink":
            os.symlink("nowhere.yaml", cfgp)
        elif kind == "config_is_a_fifo_free_special":
            os.symlink("/dev/null", cfgp)
        elif kind == "empty_source_dir":
            os.makedirs(os.path.join(box.proj, "emptysrc"))
            box.write("Breadlog.yaml", core.make_config(source_dir="emptysrc"))
        cwd = None
        if cwd_trap:
            # invoked from an unrelated directory that happens to hold everything the broken configuration lacks: a valid
            # Breadlog.yaml, and directories called src, nowhere, emptysrc with source files in them - none of it may be used
            cwd = os.path.join(box.root, "invoked-from-here")
            for d in ("src", "nowhere", "emptysrc", "src/a.rs"):
                os.makedirs(os.path.join(cwd, d), exist_ok=True)
                with open(os.path.join(cwd, d, "lookalike.rs"), "wb") as f:
                    f.write(b'fn t() {\n    info!("look-alike in the invocation directory");\n}\n')
            with open(os.path.join(cwd, "Breadlog.yaml"), "w") as f:
                f.write(core.make_config())
        before = core.snapshot(box.root)
        r = core.run_breadlog(built, box, cfgp, check=(mode == "check"), cwd=cwd)
        after = core.snapshot(box.root)
    if r.panicked():
        res["inconclusive"]["run-crashed (C17's business)"] = 1
        return res
    res["nontrivial"].append("error|%s|%s|lock=%s|cwdtrap=%s" % (kind, mode, with_lock, cwd_trap))
    kind0 = kind
    kind = kind + ("+lock" if with_lock else "") + ("+lookalikes-in-cwd" if cwd_trap else "")
    res["counters"]["error_exits"] = 1
    diff = core.snap_diff(before, after, meta=False)
    if r.rc == 0 or r.sig:
        res["violations"].append({"signature": "C16.error-exit-status|%s|%s" % (kind, mode), "detail": {"end": r.ended(), "stdout": r.out[-300:]},
                                  "case": {"error": kind0, "mode": mode, "with_lock": with_lock, "cwd_trap": cwd_trap}})
    if diff:
        res["violations"].append({"signature": "C16.error-run-changed-files|%s|%s" % (kind, mode), "detail": {"diff": diff},
                                  "case": {"error": kind0, "mode": mode, "with_lock": with_lock, "cwd_trap": cwd_trap}})
    return res


def main(tier):
    ck = frame.Check(PROP, tier, "exploration", replay_fn=replay_witness)
    built = core.build_repo()
    core.build_shim()
    ck.built = built
    points = list(itertools.product(USE_CACHE, STRUCT, EXTS, LOCK, MODE, TREE))
    if tier == "thorough":
        # the same product with other cached values: exactly max+1, a large one, one close to the top of the range
        points = points + [p + (lv,) for p in points for lv in (4, 123456, 4294967000) if p[3] == "valid_ahead"]
    jobs = [(built, p) for p in points]
    # the same expectations when the configuration file is named relatively (bare name, ./name, from the parent, from a subdirectory)
    for p in points:
        if p[2] in ("omitted", "rs+x") and p[3] in ("absent", "valid_ahead", "corrupt") and p[5] == "missing" and len(p) == 6:
            for form in ("bare", "dotslash", "from_parent", "from_subdir"):
                jobs.append((built, p, form))
    for res in frame.pmap(work, jobs, chunksize=8):
        ck.absorb(res)
    for res in frame.pmap(error_work, [(built, k, m, wl, ct) for k in ERRORS for m in MODE for wl in (False, True) for ct in (False, True)]):
        ck.absorb(res)
    ck.exhaustive = True
    ck.extra["product_points"] = len(points)
    ck.extra["error_points"] = len(ERRORS) * 4
    ck.rule = ("full product use_cache{omitted,true,false} x structured{omitted,true,false} x extensions{omitted,[rs],[rs,x],[x]} x "
               "lock{%d states: absent, valid (also via symlink, read-only, behind a 260 B-70 KiB comment header, followed by one, CRLF), "
               "unparsable in 12 ways, with a stale scratch copy} x mode x tree{missing,none missing} = %d points (exhaustive:true refers to this "
               "product) + %d error exits; observables: exit status, snapshot diff, lock before/after, whether the lock file was "
               "opened (shim), IDs chosen, token style; distinct_nontrivial = distinct points executed" % (len(LOCK), len(points), len(ERRORS) * 2))
    ck.assumptions = ["expectation table derived from docs/source/configuration.rst and the property text",
                      "an idle run (nothing to insert) may rewrite a valid lock with the same value"]
    return ck.finish()


def replay_witness(w, ck=None, built=None):
    built = built or (ck.built if ck else None) or core.build_repo()
    core.build_shim()
    c = w["case"] if "case" in w else w["first"]["case"]
    if "point" in c:
        v, _, _, _ = run_point(built, tuple(c["point"]), c.get("cfgform", "absolute"))
        return bool(v) and v != "c03"
    r = error_work((built, c["error"].replace("+lock", ""), c["mode"], c.get("with_lock", c["error"].endswith("+lock")), c.get("cwd_trap", False)))
    return bool(r["violations"])


def replay(path):
    failing = replay_witness(json.load(open(path)))
    print("replay %s: %s" % (path, "VIOLATION reproduced" if failing else "no violation"))
    if failing:
        print("VIOLATION property=%s replay=%s" % (PROP, path))
    return 1 if failing else 0
