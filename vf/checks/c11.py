"""C11 - comments, unconfigured macros and non-literal invocations are never touched."""
import json

from .. import core, frame, gen, lab

PROP = "C11"
POSITIONS = ["own_line", "after_stmt_same_line", "before_stmt_same_line", "first_in_file", "last_line_newline",
             "last_line_no_newline", "between_decoys"]
MACRO_SETS = [
    gen.DEFAULT_MACROS,
    [("log", "info")],
    [("log", "info"), ("log", "infox"), ("log", "xinfo"), ("applog", "i"), ("log", "warn_user")],
    [("tracing", "event"), ("log", "e")],
    [("log", "info"), ("tracing", "info"), ("log", "warn"), ("slog", "warn"), ("logger", "info")],
    [("app::diag", "note"), ("app", "warn"), ("diag", "note")],
    [("my_app::telemetry", "event"), ("vendor::deep::nested::logmod", "rec"), ("log", "info")],
]


def simple_stmt(rnd, marker, macros, structured):
    f = dict(gen.NEUTRAL)
    f["path"] = rnd.choice(["bare", "qual"])
    f["nkv"] = rnd.choice([0, 0, 1])
    f["target"] = rnd.choice(["none", "none", "plain"])
    f["pre"] = "bol"
    f["post"] = "semi"
    return gen.build_stmt(f, marker, rnd, macros=macros)


def build(fileseed, specs, macros, structured, eol):
    """specs: list of (decoy_class, position)."""
    rnd = core.rng_for("c11file", fileseed)
    gf = gen.GenFile(eol)
    n = 0

    def stmt():
        nonlocal n
        n += 1
        pre, st, post = simple_stmt(rnd, "R%s_%d" % (fileseed, n), macros, structured)
        return gf.add_stmt("", st, post)

    def decoy(cls, pos):
        nonlocal n
        n += 1
        txt = gen.decoy_text(cls, "D%s_%d" % (fileseed, n), rnd, macros, eol)
        it = gen.Item("decoy", txt, cls=cls, marker=pos)
        return gf.add(it)

    body = [s for s in specs if s[1] not in ("first_in_file", "last_line_newline", "last_line_no_newline")]
    firsts = [s for s in specs if s[1] == "first_in_file"][:1]
    lasts = [s for s in specs if s[1] in ("last_line_newline", "last_line_no_newline")][:1]
    for cls, pos in firsts:
        decoy(cls, pos)
        gf.newline()
    gf.raw("fn generated() {" + eol)
    for cls, pos in body:
        gf.raw("    ")
        if cls == "block_multi_paragraph" and pos in ("before_stmt_same_line", "after_stmt_same_line"):
            pos = "own_line"
        if pos == "own_line":
            decoy(cls, pos)
            gf.newline()
            gf.raw("    ")
            stmt()
        elif pos == "after_stmt_same_line":
            stmt()
            gf.raw(" ")
            decoy(cls, pos)
        elif pos == "before_stmt_same_line":
            d = decoy(cls, pos)
            if cls in ("line_comment", "doc_comment", "inner_doc", "line_trailing_backslash", "line_comment_after_string", "line_comment_bare_cr", "line_comment_after_lifetime",
                       "line_comment_with_quoted_word_after_string", "line_comment_glued_to_colon"):
                gf.newline()       # a line comment swallows the rest of its line by definition
                gf.raw("    ")
            else:
                gf.raw(" ")
            stmt()
        elif pos == "between_decoys":
            decoy(rnd.choice(gen.DECOY_CLASSES), pos)
            gf.newline()
            gf.raw("    ")
            decoy(cls, pos)
            gf.newline()
            gf.raw("    ")
            decoy(rnd.choice(gen.DECOY_CLASSES), pos)
        gf.newline()
    gf.raw("}" + eol)
    for cls, pos in lasts:
        decoy(cls, pos)
        if pos == "last_line_newline":
            gf.newline()
    return gf


def work(job):
    built, fileseed, specs, mi, structured, eol = job
    macros = MACRO_SETS[mi]
    gf = build(fileseed, specs, macros, structured, eol)
    with core.Box(tag="c11") as box:
        cfg = core.make_config(structured=True if structured else None, macros=macros, use_cache=False)
        out = lab.run_tree(built, box, {"src/f.rs": gf.data()}, cfg, trace=True)
    fo = out.files["src/f.rs"]
    res = {"evaluations": 2, "nontrivial": [], "violations": [], "samples": [], "inconclusive": {}, "counters": {}}
    if out.check.panicked() or out.edit.panicked():
        res["inconclusive"]["run-crashed (C17's business)"] = 1
        return res
    if fo.tokens is None:
        res["inconclusive"]["prerequisite C03 failed (decomposition)"] = 1
        return res
    tr = fo.trace_check or []
    nst = nfound = 0
    for it in gf.items:
        if it.kind == "stmt":
            nst += 1
            if any(it.start <= o < it.end for o in fo.reported):
                nfound += 1
            continue
        a, b = it.start, it.end
        res["nontrivial"].append("%s|%s|%s|%d" % (it.cls, it.marker, "s" if structured else "u", mi))
        rep = [o for o in fo.reported if a <= o < b]
        ins = [t for t in fo.tokens if a <= t["off"] < b]
        seen = [e for e in tr if a <= e["offset"] < b]
        clause = "reported" if rep else ("edited" if ins else ("parser-entry" if seen else None))
        if clause:
            res["violations"].append({
                "signature": "C11.%s|%s|%s|%s" % (clause, it.cls, it.marker, "structured" if structured else "unstructured"),
                "detail": {"decoy": it.text, "class": it.cls, "position": it.marker, "macros": macros,
                           "reported": rep, "inserted": [(t["off"] - a, t["tok"]) for t in ins], "hook": seen},
                "case": {"specs": [[it.cls, it.marker]], "mi": mi, "structured": structured, "eol": eol}})
    res["counters"]["decoys"] = len([i for i in gf.items if i.kind == "decoy"])
    res["counters"]["real_statements"] = nst
    res["counters"]["real_statements_reported"] = nfound
    if len(gf.data()) > 65536:
        res["counters"]["files_larger_than_64KiB"] = 1
        res["counters"]["largest_file_bytes"] = 0
    if fileseed.endswith("-0"):
        res["samples"] = [{"decoy": it.text, "class": it.cls, "position": it.marker,
                           "reported_inside": [o for o in fo.reported if it.start <= o < it.end],
                           "tokens_inside": [t["off"] for t in fo.tokens if it.start <= t["off"] < it.end]}
                          for it in gf.items if it.kind == "decoy"][:5]
    return res


def main(tier):
    ck = frame.Check(PROP, tier, "exploration", replay_fn=replay_witness)
    built = core.build_repo()
    ck.built = built
    rnd = core.rng_for("c11", ck.seed, tier)
    combos = [(c, p) for c in gen.DECOY_CLASSES for p in POSITIONS]
    reps = 30 if tier == "quick" else 400
    jobs = []
    n = 0
    for r in range(reps):
        for mi in range(len(MACRO_SETS)):
            for structured in (False, True):
                cs = list(combos)
                rnd.shuffle(cs)
                for i in range(0, len(cs), 12):
                    jobs.append((built, "%d-%d" % (ck.seed, n), cs[i:i + 12], mi, structured, "\r\n" if n % 5 == 4 else "\n"))
                    n += 1
    # large files (hundreds of KB): the same decoys, thousands per file, so that comments and strings lie across every
    # possible internal buffer / window boundary
    for b in range(2 if tier == "quick" else 24):
        cs = [rnd.choice(combos) for _ in range(1800)]
        cs = [c for c in cs if c[1] not in ("first_in_file", "last_line_newline", "last_line_no_newline")]
        jobs.append((built, "%d-big%d" % (ck.seed, b), cs, b % len(MACRO_SETS), b % 2 == 1, "\n"))
    for res in frame.pmap(work, jobs, chunksize=4):
        ck.absorb(res)
    ck.extra.update({"decoy_classes": gen.DECOY_CLASSES, "positions": POSITIONS, "macro_sets": MACRO_SETS,
                     "files": len(jobs), "hook_used": built.hooks})
    ck.rule = ("every decoy class x position x configured-macro set x style, repeated with fresh random content; "
               "one case = one decoy whose byte range must contain no check-reported location, no inserted token "
               "and no parser entry (hook); distinct_nontrivial = distinct (class, position, style, macro set)")
    ck.assumptions = ["decoy byte ranges known by construction", "raw strings / unescaped macro text in strings are not decoys"]
    return ck.finish()


def replay_witness(w, ck=None, built=None):
    built = built or (ck.built if ck else None) or core.build_repo()
    c = w["case"] if "case" in w else w["first"]["case"]
    r = work((built, "replay", [tuple(s) for s in c["specs"]], c["mi"], c["structured"], c["eol"]))
    return bool(r["violations"])


def replay(path):
    failing = replay_witness(json.load(open(path)))
    print("replay %s: %s" % (path, "VIOLATION reproduced" if failing else "no violation"))
    if failing:
        print("VIOLATION property=%s replay=%s" % (PROP, path))
    return 1 if failing else 0
