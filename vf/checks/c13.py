"""C13 - structured mode keeps the reference as a well-formed `ref` key-value."""
import json
import os

from .. import core, frame, gen, lab

PROP = "C13"
PER_FILE = 40

VALID_VALUES = ["7", "0", "1", "42", "4294967295", "65536", "007", "123456789", "00000000001", "0000000000000042", "04294967295"]
UNUSABLE_VALUES = ["x", '"s"', "foo(1)", "x.y", "true", "1.5", "id", '"7"', "some_id + 1", "REF_ID",
                   # expressions that merely begin with digits
                   "40 + 2", "3.max(n)", "7 as u64", "2 * n", "10 - 1", "1 << 4", "5 /* five */ + 1", "12 .min(x)"]
# safety assertions only: out-of-range / non-decimal literals, and values outside the "simple value" grammar (DESIGN 4.3)
AMBIGUOUS_VALUES = ["4294967296", "0x10", "10u32", "1_0", "99999999999", "0b11", "1e3", "-1", "&n", "4294967301", "8589934597", "18446744073709551621"]


def make_cases(tier, seed):
    rnd = core.rng_for("c13", seed, tier)
    n = 30000 if tier == "quick" else 1000000
    feats = {k: gen.FEATURES[k] for k in ("path", "target", "nkv", "kv0", "kv1", "kv2", "msg", "trail", "lay", "pre", "post", "ref")}
    rows = list(gen.covering_rows(feats, 2, rnd, candidates=8))
    while len(rows) < n:
        rows.append(gen.random_feat(rnd))
    cases = []
    for i, f in enumerate(rows):
        kind = ["none", "valid", "unusable", "none", "valid", "ambiguous", "valid"][i % 7]
        if kind == "none":
            kv_ref = None
        else:
            pos = rnd.randrange(0, f["nkv"] + 1)
            val = rnd.choice({"valid": VALID_VALUES, "unusable": UNUSABLE_VALUES, "ambiguous": AMBIGUOUS_VALUES}[kind])
            kv_ref = ("valid" if kind == "valid" else "unusable", val, pos)
            if kind == "valid" and i % 7 == 6:
                # the reference key written with a capture modifier
                kv_ref = kv_ref + (rnd.choice(["ref:?", "ref:%", "ref:debug", "ref:display"]),)
            if val in ("-1", "&n") and f["target"] in ("blockopen", "slashes"):
                # a value outside the key-value grammar makes the whole statement unparsable; its target string is then scanned as
                # ordinary text, where a comment opener triggers the open finding D13 (C10) and would hide the *following* statements
                f = dict(f, target="plain")
        cases.append((f, kind, kv_ref))
    rnd.shuffle(cases)
    return cases, feats


def work(job):
    built, fileseed, cases, eol = job
    rnd = core.rng_for("c13file", fileseed)
    gf = gen.GenFile(eol)
    gf.raw("// generated %s%s" % (fileseed, eol))
    meta = []
    for i, (feat, kind, kv_ref) in enumerate(cases):
        feat = dict(feat)
        if feat["post"] == "eof" and i < len(cases) - 1:
            feat["post"] = "semi"
        pre, st, post = gen.build_stmt(feat, "S%s_%d" % (fileseed, i), rnd, eol=eol, kv_ref=kv_ref)
        it = gf.add_stmt(pre, st, post)
        if not (feat["post"] == "eof"):
            gf.newline()
        meta.append((it, kind, kv_ref))
    with core.Box(tag="c13") as box:
        out = lab.run_tree(built, box, {"src/f.rs": gf.data()}, core.make_config(structured=True, use_cache=False), trace=True)
        fol = None
        if out.edit is not None and out.edit.rc == 0 and not out.edit.panicked():
            # what the edit run added must be `ref = N` as the tool itself reads it: a check of the edited file finds nothing missing
            # and no unusable reference that was not there before
            fol = core.run_breadlog(built, box, os.path.join(box.proj, "Breadlog.yaml"), check=True)
    fo = out.files["src/f.rs"]
    res = {"evaluations": 2, "nontrivial": [], "violations": [], "samples": [], "inconclusive": {}, "counters": {}}
    if out.check.panicked() or out.edit.panicked():
        res["inconclusive"]["run-crashed (C17's business)"] = 1
        return res
    if fol is not None and not fol.panicked() and not fol.timed_out and not out.check.timed_out:
        res["counters"]["edited_files_checked_again"] = 1
        what = None
        if fol.missing():
            what = "reported-missing-again"
        elif len(fol.unusable()) > len(out.check.unusable()):
            what = "reported-unusable"
        if what:
            res["violations"].append({"signature": "C13.added-reference-not-read-back-as-ref|" + what,
                                      "detail": {"missing_after_edit": fol.missing()[:3], "unusable_before": len(out.check.unusable()),
                                                 "unusable_after": len(fol.unusable()), "first_unusable_after": fol.unusable()[:3],
                                                 "edit_stdout": out.edit.out[-200:]},
                                      "case": {"cases": [[it.stmt.feat, k, r] for it, k, r in meta], "eol": eol}})
            return res
    if fo.tokens is None:
        res["inconclusive"]["prerequisite C03 failed (decomposition)"] = 1
        return res
    hook = fo.trace_check is not None
    tr = fo.trace_check or []
    toks = fo.tokens
    nmissing_expected = 0
    for it, kind, kv_ref in meta:
        st = it.stmt
        a, b = it.start, it.end
        rep = [o for o in fo.reported if a <= o < b]
        ins = [t for t in toks if a <= t["off"] < b]
        entries = [e for e in tr if a <= e["offset"] < b]
        unus = [o for o in fo.unusable if a <= o < b]
        clause = None
        res["counters"]["kind_" + kind] = res["counters"].get("kind_" + kind, 0) + 1
        res["nontrivial"].append(json.dumps([kind, kv_ref, sorted(st.feat.items())]))
        if kind == "none":
            nmissing_expected += 1
            lo, hi = lab.expected_region(st, a, True)
            want_tok_sep = b"; " if st.nkv_total == 0 else b", "
            good = [t for t in ins if lo <= t["off"] <= hi and t["style"] == "kv"]
            if not any(lo <= o <= hi for o in rep):
                clause = "missing-not-reported-in-region"
            elif len(ins) != 1 or not good:
                clause = "missing-not-inserted-in-region" if not good else "more-than-one-token"
            elif not good[0]["tok"].endswith(want_tok_sep):
                clause = "wrong-separator"
        elif kind == "valid":
            want = int(kv_ref[1])
            if rep:
                clause = "valid-ref-reported-missing"
            elif ins:
                clause = "valid-ref-edited"
            elif unus:
                clause = "valid-ref-reported-unusable"
            elif hook and not any(e["reference"] == want and e["kind"] == "StructuredPreExisting" for e in entries):
                clause = "valid-ref-hook-reads-%s" % ("nothing" if not entries else
                                                      ("unusable" if not entries[0]["usable"] else "other"))
        else:  # unusable / ambiguous: safety half
            if ins:
                clause = "unusable-ref-edited"
            elif rep:
                clause = "unusable-ref-reported-missing"
            elif kind == "unusable" and hook and not any((not e["usable"]) and e["kind"] == "StructuredPreExisting" for e in entries):
                clause = "unusable-ref-not-classified-unusable"
            if kind == "unusable" and not clause and unus:
                res["counters"]["unusable_stdout_corroborated"] = res["counters"].get("unusable_stdout_corroborated", 0) + 1
            if kind == "unusable" and not clause and not unus:
                clause = "unusable-ref-not-reported-by-check"        # "is reported as unusable rather than missing"
            if kind == "ambiguous" and not clause and hook and kv_ref[1].isdigit():
                # a decimal literal beyond u32 cannot be anybody's reference number: whatever the tool makes of it, not another number
                odd = [e for e in entries if e["reference"] is not None and e["reference"] != int(kv_ref[1])]
                if odd:
                    clause = "out-of-range-literal-read-as-%d" % odd[0]["reference"]
        if clause:
            f = st.feat
            sig = "C13.%s|val=%s|lay=%s|target=%s|others=%d" % (
                clause, (kv_ref[1] if kv_ref else "-"), f["lay"], f["target"] != "none", f["nkv"])
            res["violations"].append({"signature": sig,
                                      "detail": {"statement": st.text, "kind": kind, "kv_ref": kv_ref, "reported": rep,
                                                 "inserted": [(t["off"] - a, t["tok"]) for t in ins], "hook": entries,
                                                 "unusable_lines": unus},
                                      "case": {"cases": [[st.feat, kind, kv_ref]], "eol": eol}})
    # total reported must not count unusable ones as missing
    tm = out.check.total_missing()
    if tm is not None and not res["violations"] and tm != nmissing_expected:
        res["violations"].append({"signature": "C13.total-missing-mismatch",
                                  "detail": {"reported_total": tm, "expected": nmissing_expected},
                                  "case": {"cases": [[it.stmt.feat, k, r] for it, k, r in meta], "eol": eol}})
    res["counters"]["hook_entries"] = len(tr)
    res["counters"]["statements"] = len(meta)
    if fileseed.endswith("-0"):
        for it, kind, kv_ref in meta[:4]:
            res["samples"].append({"statement": it.stmt.text, "kind": kind, "kv_ref": kv_ref,
                                   "inserted": [(t["off"] - it.start, t["tok"]) for t in toks if it.start <= t["off"] < it.end],
                                   "hook": [e for e in tr if it.start <= e["offset"] < it.end]})
    return res


def main(tier):
    ck = frame.Check(PROP, tier, "exploration", replay_fn=replay_witness)
    built = core.build_repo()
    ck.built = built
    cases, feats = make_cases(tier, ck.seed)
    jobs = []
    # a statement carrying ref = 4294967295 (correctly) makes every inserting run on its tree fail with "range
    # exhausted": such statements live in files that hold no statement needing a reference.
    def is_top(c):
        return bool(c[2]) and c[2][0] == "valid" and c[2][1].isdigit() and int(c[2][1]) >= 4294960000
    high = [c for c in cases if is_top(c)]
    hfill = [c for c in cases if c[1] != "none" and not is_top(c)][:len(high) * 2]
    low = [c for c in cases if not is_top(c)]
    for n, i in enumerate(range(0, len(low), PER_FILE)):
        chunk = low[i:i + PER_FILE]
        if n % 5 == 2:
            # a file in which no statement is waiting for a reference (the state of every file after an edit run): what is
            # reported about its unusable references must not depend on the presence of missing ones
            chunk = [c for c in chunk if c[1] != "none"]
        jobs.append((built, "%d-%d" % (ck.seed, n), chunk, "\r\n" if n % 4 == 3 else "\n"))
    hi = high + hfill
    for n, i in enumerate(range(0, len(hi), PER_FILE)):
        jobs.append((built, "%d-high%d" % (ck.seed, n), hi[i:i + PER_FILE], "\n"))
    for res in frame.pmap(work, jobs, chunksize=4):
        ck.absorb(res)
    req, cov = gen.tuple_coverage([c[0] for c in cases], feats, 2)
    ck.extra.update({"pairs_required": req, "pairs_covered": cov, "files": len(jobs), "hook_used": built.hooks,
                     "valid_values": VALID_VALUES, "unusable_values": UNUSABLE_VALUES,
                     "ambiguous_values_safety_only": AMBIGUOUS_VALUES})
    ck.rule = ("structured-mode statements from the statement feature model (pairwise covering rows + random), each given no "
               "`ref`, a valid `ref = <decimal>` or an unusable/ambiguous `ref` value at a random key-value position; one "
               "case = one statement judged in check report, edit decomposition and hook trace; distinct_nontrivial = "
               "distinct (kind, ref value/position, feature vector)")
    ck.assumptions = ["generator ground truth (DESIGN 4.3)", "hook trace for recognised/unusable classification",
                      "ambiguous literals (out-of-range, hex, suffixed) only get the safety assertions"]
    return ck.finish()


def replay_witness(w, ck=None, built=None):
    built = built or (ck.built if ck else None) or core.build_repo()
    c = w["case"] if "case" in w else w["first"]["case"]
    cases = [(x[0], x[1], tuple(x[2]) if x[2] else None) for x in c["cases"]]
    r = work((built, "replay", cases, c.get("eol", "\n")))
    return bool(r["violations"])


def replay(path):
    failing = replay_witness(json.load(open(path)))
    print("replay %s: %s" % (path, "VIOLATION reproduced" if failing else "no violation"))
    if failing:
        print("VIOLATION property=%s replay=%s" % (PROP, path))
    return 1 if failing else 0
