"""C04 - check mode never modifies anything (strace syscall monitor + snapshot equality)."""
import itertools
import json
import os
import re
import signal

from .. import core, frame, gen, trees

PROP = "C04"

MUT_SYSCALLS = {"rename", "renameat", "renameat2", "unlink", "unlinkat", "rmdir", "mkdir", "mkdirat", "link", "linkat",
                "symlink", "symlinkat", "truncate", "ftruncate", "fallocate", "chmod", "fchmod", "fchmodat", "fchmodat2",
                "chown", "fchown", "lchown", "fchownat", "utime", "utimes", "utimensat", "futimesat", "setxattr", "lsetxattr",
                "fsetxattr", "removexattr", "lremovexattr", "fremovexattr", "mknod", "mknodat"}
WRITE_SYSCALLS = {"write", "pwrite64", "writev", "pwritev", "pwritev2", "sendfile", "copy_file_range", "splice"}
OPEN_SYSCALLS = {"open", "openat", "openat2", "creat"}
WRITE_FLAGS = ("O_WRONLY", "O_RDWR", "O_CREAT", "O_TRUNC", "O_APPEND", "O_TMPFILE")
LINE = re.compile(r"^(\d+)\s+(\w+)\((.*)$")
RESUMED = re.compile(r"^(\d+)\s+<\.\.\. (\w+) resumed>(.*)$")
RESULT = re.compile(r"\)\s+= ")
FDPATH = re.compile(r"^(\d+)<([^>]*)>")


def parse_strace(path):
    """yield (pid, syscall, args_text, result_text)"""
    pending = {}
    with open(path, "r", errors="replace") as f:
        for line in f:
            line = line.rstrip("\n")
            m = RESUMED.match(line)
            if m:
                pid, name, rest = m.groups()
                head = pending.pop((pid, name), "")
                full = head + rest
                yield _split(pid, name, full)
                continue
            m = LINE.match(line)
            if not m:
                continue
            pid, name, rest = m.groups()
            if rest.endswith("<unfinished ...>"):
                pending[(pid, name)] = rest[:-len("<unfinished ...>")]
                continue
            yield _split(pid, name, rest)
    for (pid, name), head in pending.items():
        yield (pid, name, head, "?")


def _split(pid, name, text):
    ms = list(RESULT.finditer(text))
    if not ms:
        return (pid, name, text, "?")
    m = ms[-1]
    return (pid, name, text[:m.start()], text[m.end():].strip())


def allowed_path(p, root):
    if p.startswith(os.path.dirname(root) + "/logs/"):
        return True      # the harness's own monitors (shim event log) write here; outside the sandbox proper
    return p.startswith("/dev/") or p.startswith("/proc/") or p in ("/dev/null", "/dev/tty")


def audit(path, root):
    """-> (violations, n_syscalls, classes seen). A violation is a successful mutating syscall."""
    v = []
    n = 0
    seen = {}
    for pid, name, args, result in parse_strace(path):
        n += 1
        seen[name] = seen.get(name, 0) + 1
        failed = result.startswith("-1") or result == "?"
        if name in MUT_SYSCALLS:
            if not failed:
                v.append((name, args[:200]))
        elif name in OPEN_SYSCALLS:
            if failed:
                continue
            flags = args
            if any(fl in flags for fl in WRITE_FLAGS):
                m = re.search(r'"((?:[^"\\]|\\.)*)"', args)
                p = m.group(1) if m else "?"
                # resolve through the returned fd annotation when available
                rm = FDPATH.match(result)
                if rm:
                    p = rm.group(2)
                if not allowed_path(p, root):
                    v.append((name + ":writable-open", args[:200] + " = " + result[:120]))
        elif name in WRITE_SYSCALLS:
            if failed:
                continue
            m = FDPATH.match(args)
            if m:
                target = m.group(2)
                if target.startswith("/") and not allowed_path(target, root):
                    # a regular file (pipes, sockets and anon inodes are shown as pipe:[..] etc.)
                    v.append((name + ":to-file", target[:200]))
    return v, n, seen


TREES = ["none_missing", "some_missing", "unreadable_file", "invalid_utf8", "empty_source_dir", "missing_source_dir", "bad_config",
         "missing_config", "big_tree"]
LOCKS = ["absent", "valid", "valid_behind", "valid_handwritten", "corrupt", "empty", "absent+stale_scratch", "valid+stale_scratch"]
# how check mode is asked for (drawn per point, not a product dimension): every spelling the command line accepts or
# rejects - a rejected command line must not touch anything either
ARGS = ["-c CFG --check", "--check -c CFG", "--config CFG --check", "-c CFG --check --check", "--check --config=CFG", "-cCFG --check",
        "--check -c DIR", "-c DIR/ --check"]
CACHE = [None, True, False]
STRUCT = [False, True]
ENDING = ["normal", "sigterm", "sigint"]
TMPDIRS = ["exists", "missing", "missing_inside_project", "holds_old_scratch_files"]     # the environment is part of the configuration


def make_tree(box, tree, rnd):
    if tree in ("none_missing",):
        box.write("src/a.rs", b'fn a() { info!(ref = 1; "[ref: 1] done"); }\n')
    elif tree == "some_missing":
        box.write("src/a.rs", b'fn a() { info!("needs one"); warn!(k = 1; "and one"); }\n')
        box.write("src/b.rs", b'fn b() { error!(ref = 9; "[ref: 9] ok"); }\n')
    elif tree == "unreadable_file":
        p = box.write("src/a.rs", b'fn a() { info!("needs one"); }\n')
        q = box.write("src/locked.rs", b'fn l() { info!("cannot read"); }\n')
        os.symlink("/proc/self/mem", os.path.join(box.proj, "src", "weird.rs"))
        os.mkfifo(os.path.join(box.proj, "src", "fifo.txt"))
    elif tree == "invalid_utf8":
        box.write("src/a.rs", b'fn a() { info!("caf\xe9 needs one"); }\n')
        box.write("src/b.rs", b'fn b() { info!("fine"); }\n')
    elif tree == "empty_source_dir":
        os.makedirs(os.path.join(box.proj, "src"))
    elif tree == "missing_source_dir":
        pass
    elif tree == "missing_config":
        pass
    elif tree == "bad_config":
        box.write("src/a.rs", b'fn a() { info!("x"); }\n')
    elif tree == "big_tree":
        t = trees.gen_tree(rnd, nfiles=12, stmts=(5, 30), label="c04")
        for rel, d in t.files.items():
            box.write(rel, d)


def work(job):
    built, seed, i, point = job
    tree, lock, cache, structured, ending = point[:5]
    tmpmode = point[5] if len(point) > 5 else "exists"
    rnd = core.rng_for("c04", seed, i)
    res = {"evaluations": 1, "nontrivial": [], "violations": [], "samples": [], "inconclusive": {}, "counters": {}}
    with core.Box(tag="c04") as box:
        make_tree(box, tree, rnd)
        if tree == "missing_config":
            # the file named by -c does not exist (a typo: .yaml for .yml), its directory does
            box.write("src/a.rs", b'fn a() { info!("x"); }\n')
            box.write("Breadlog.yml", core.make_config())
            cfg = os.path.join(box.proj, "Breadlog.yaml")
        elif tree == "bad_config":
            cfg = box.write("Breadlog.yaml", "---\nsource_dir: [1, 2\n")
        else:
            # the source directory is given relative to the configuration file or as an absolute path
            sdir = "src" if core.rng_for("c04src", seed, i).random() < 0.6 else os.path.join(box.proj, "src")
            cfg = box.write("Breadlog.yaml", core.make_config(source_dir=sdir, use_cache=cache, structured=True if structured else None))
        lockp = os.path.join(box.proj, "Breadlog.lock")
        if lock == "valid":
            open(lockp, "w").write(core.lock_text(50))
        elif lock == "valid_handwritten":
            # parses to a number but is not byte for byte what the tool writes (no header, CRLF, comment, other key order)
            open(lockp, "w", newline="").write(rnd.choice(["next_reference_id: 50\n", core.lock_text(50).replace("\n", "\r\n"), "# ours\nnext_reference_id:   50   # resolved by hand\n",
                                                           "---\nnext_reference_id: 50\n...\n"]))
        elif lock == "valid_behind":
            # well-formed, but at or below references that are in the code (a lock restored from an old commit)
            open(lockp, "w").write(core.lock_text(rnd.choice([1, 2, 9])))
        elif lock == "corrupt":
            open(lockp, "w").write("next_reference_id: {oops\n")
        elif lock == "empty":
            open(lockp, "w").write("")
        elif lock.endswith("+stale_scratch"):
            if lock.startswith("valid"):
                open(lockp, "w").write(core.lock_text(50))
            # left behind by an edit run that was killed between writing the lock's scratch copy and renaming it
            open(lockp + ".tmp", "w").write(rnd.choice([core.lock_text(70), core.lock_text(3), core.LOCK_HEADER, ""]))
        # cwd is a separate monitored directory
        cwd = os.path.join(box.root, "cwd")
        os.makedirs(cwd)
        rules = None
        if ending != "normal":
            # stop request raised synchronously at a seeded operation boundary
            k = rnd.randrange(2, 12)
            rules = "n=%d,act=sig:%d" % (k, signal.SIGTERM if ending == "sigterm" else signal.SIGINT)
        tmpdir = None
        if tmpmode == "missing":
            tmpdir = os.path.join(box.root, "no", "such", "tmpdir")
        elif tmpmode == "missing_inside_project":
            tmpdir = os.path.join(box.proj, "target", "tmp")
        elif tmpmode == "holds_old_scratch_files":
            # left by killed runs of this tool days ago, next to other programs' files
            import time as _t
            for name, age in (("breadlog-0b0e3c5e-1f6a-4c59-9f0e-aaaaaaaaaaaa.tmp", 3 * 86400), ("breadlog-11111111-2222-3333-4444-555555555555.tmp", 7200),
                              ("breadlog-fresh.tmp", 5), ("other-program.tmp", 9 * 86400), (".hidden-old", 40 * 86400)):
                pth = os.path.join(box.tmp, name)
                with open(pth, "w") as f:
                    f.write("fn x() { info!(\"scratch\"); }\n")
                os.utime(pth, (_t.time() - age, _t.time() - age))
        before = core.snapshot(box.root)
        form = core.rng_for("c04args", seed, i).choice(ARGS)
        argv = [a.replace("CFG", cfg).replace("DIR", os.path.dirname(cfg)) for a in form.split(" ")]
        r = core.run_breadlog(built, box, cfg, check=True, cwd=cwd, strace=True, rules=rules, timeout=120, tmpdir=tmpdir,
                              argv_override=argv)
        after = core.snapshot(box.root)
        v, nsys, seen = audit(r.strace, box.root) if r.strace and os.path.exists(r.strace) else ([("no-strace-log", "")], 0, {})
        excerpt = []
        if i == 0 and r.strace:
            with open(r.strace, errors="replace") as f:
                excerpt = [l.rstrip() for l in f if "/box/" in l][:8]
    if r.timed_out:
        res["inconclusive"]["timeout"] = 1
        return res
    if nsys == 0:
        res["inconclusive"]["strace produced no syscalls"] = 1
        return res
    diff = core.snap_diff(before, after, meta=True)
    res["counters"].update({"syscalls_inspected": nsys, "runs": 1, "ending_" + ending: 1, "args_form[%s]" % form: 1,
                            "exit_%s" % r.ended(): 1})
    for k in ("openat", "read", "write", "statx", "getdents64", "close"):
        if k in seen:
            res["counters"]["sys_" + k] = seen[k]
    res["nontrivial"].append("|".join(str(x) for x in point))
    sigbase = "%s|lock=%s|cache=%s|%s|%s|tmpdir=%s" % (tree, lock, cache, "structured" if structured else "unstructured", ending, tmpmode)
    if form != ARGS[0]:
        sigbase += "|args=" + form
    for name, detail in v:
        res["violations"].append({"signature": "C04.mutating-syscall:%s|%s" % (name, sigbase), "detail": {"syscall": name, "args": detail},
                                  "case": {"point": list(point), "seed": seed, "i": i}})
    for p, what in diff:
        res["violations"].append({"signature": "C04.snapshot-differs:%s|%s" % (what, sigbase), "detail": {"path": p, "what": what},
                                  "case": {"point": list(point), "seed": seed, "i": i}})
    if excerpt:
        res["samples"].append({"point": list(point), "exit": r.ended(), "syscalls_inspected": nsys, "strace_excerpt": excerpt})
    return res


def corpus_work(job):
    built, label, files = job
    res = {"evaluations": 1, "nontrivial": [], "violations": [], "samples": [], "inconclusive": {}, "counters": {}}
    with core.Box(tag="c04c") as box:
        for rel, d in files.items():
            box.write(rel, d)
        cfg = box.write("Breadlog.yaml", core.make_config())
        before = core.snapshot(box.root)
        r = core.run_breadlog(built, box, cfg, check=True, strace=True, timeout=600)
        after = core.snapshot(box.root)
        v, nsys, seen = audit(r.strace, box.root)
    diff = core.snap_diff(before, after, meta=True)
    res["counters"].update({"syscalls_inspected": nsys, "runs": 1, "corpus_files": len(files)})
    res["nontrivial"].append("corpus|" + label)
    for name, detail in v:
        res["violations"].append({"signature": "C04.mutating-syscall:%s|corpus" % name, "detail": {"args": detail}, "case": {"corpus": label}})
    for p, what in diff:
        res["violations"].append({"signature": "C04.snapshot-differs:%s|corpus" % what, "detail": {"path": p}, "case": {"corpus": label}})
    return res


def main(tier):
    ck = frame.Check(PROP, tier, "exploration", replay_fn=replay_witness)
    built = core.build_repo()
    core.build_shim()
    ck.built = built
    rnd = core.rng_for("c04main", ck.seed, tier)
    product = list(itertools.product(TREES, LOCKS, CACHE, STRUCT, ENDING, TMPDIRS))
    # the whole product in both tiers (a point costs ~20 ms under strace); thorough repeats it with three further
    # seeds (different signal positions and tree contents)
    points = list(product)
    ck.exhaustive = True
    if tier == "thorough":
        points = points * 4
    jobs = [(built, ck.seed, i, p) for i, p in enumerate(points)]
    for res in frame.pmap(work, jobs, chunksize=2):
        ck.absorb(res)
    shards, reg = trees.corpus_shards(rnd, 4 if tier == "quick" else 16, registry_n=0 if tier == "quick" else 400)
    for res in frame.pmap(corpus_work, [(built, l, f) for l, f in shards]):
        ck.absorb(res)
    ck.extra["product_size"] = len(product)
    ck.extra["points_run"] = len(points)
    ck.rule = ("configuration product tree{none missing, some missing, unreadable/special files, invalid UTF-8, empty / missing source "
               "dir, bad config, 12-file tree} x lock{absent,valid,valid but behind the code,corrupt,empty, absent/valid + a stale Breadlog.lock.tmp} x use_cache{omitted,true,false} x structured x "
               "ending{normal, SIGTERM, SIGINT at a seeded operation} x TMPDIR{exists, missing, missing inside the project, holding old scratch files}, command-line spelling of check mode drawn from 8 forms incl. a repeated --check and a directory instead of the file (all %d points in both tiers, exhaustive; thorough x4 with fresh "
               "signal positions) + corpora; every --check process runs under strace -f -y; every successful kernel call "
               "that can mutate the filesystem is a violation, as is any difference (content, mode, size, mtime, inode, path set) "
               "between the before/after snapshots of project, TMPDIR, cwd and an outside directory; distinct_nontrivial = distinct points"
               % len(product))
    ck.assumptions = ["strace -f -y decodes fds to paths; writes to pipes, sockets, eventfds, /dev and /proc are allowed",
                      "the signal is raised by the LD_PRELOAD shim (itself visible in the trace as a kill syscall)"]
    return ck.finish()


def replay_witness(w, ck=None, built=None):
    built = built or (ck.built if ck else None) or core.build_repo()
    core.build_shim()
    c = w["case"] if "case" in w else w["first"]["case"]
    if "point" not in c:
        return False
    r = work((built, c["seed"], c["i"], tuple(c["point"])))
    return bool(r["violations"])


def replay(path):
    failing = replay_witness(json.load(open(path)))
    print("replay %s: %s" % (path, "VIOLATION reproduced" if failing else "no violation"))
    if failing:
        print("VIOLATION property=%s replay=%s" % (PROP, path))
    return 1 if failing else 0
