"""Statement-level laboratory: run check and edit on generated files and map results back to items."""
import os
import re

from . import ambient as ambient_mod
from . import core
from .decomp import decompose


class FileOutcome:
    __slots__ = ("rel", "before", "after", "reported", "reported_bad", "unusable", "tokens", "decomp_ok",
                 "trace_check", "trace_edit")


class Outcome:
    __slots__ = ("check", "edit", "files", "lock_before", "lock_after", "changed_other", "snap_before", "snap_after", "ambient_changed", "amb")


def run_tree(built, box, files, config_yaml, do_check=True, do_edit=True, trace=True, lock=None, shim=False,
             config_rel="Breadlog.yaml", timeout=120, ambient=None, env_extra=None):
    """files: rel -> bytes (below proj). Runs --check then edit on the same tree (check does not modify: C04).

    Returns Outcome with per-file reported offsets (from check) and tokens (from edit).
    """
    # (the order of creation decides the walk order on file systems that list entries by age - see fault.Project.materialise)
    order = sorted(files)
    core.rng_for("creation-order", len(order), sum(len(d) for d in files.values()), order[:3]).shuffle(order)
    for rel in order:
        box.write(rel, files[rel])
    cfg = box.write(config_rel, config_yaml)
    lockp = os.path.join(os.path.dirname(cfg), "Breadlog.lock")
    if lock is not None:
        with open(lockp, "w") as f:
            f.write(lock)
    if ambient:
        ambient_mod.apply(box.proj, ambient, lock_dir=os.path.dirname(cfg))
    out = Outcome()
    out.files = {}
    out.ambient_changed = []
    out.amb = ambient or {"kind": "plain", "stale_lock_tmp": None}
    out.check = out.edit = None
    for rel, data in files.items():
        fo = FileOutcome()
        fo.rel = rel
        fo.before = data
        fo.after = data
        fo.reported = []
        fo.reported_bad = []
        fo.unusable = []
        fo.tokens = None
        fo.decomp_ok = True
        fo.trace_check = fo.trace_edit = None
        out.files[rel] = fo
    byabs = {os.path.join(box.proj, rel): rel for rel in files}
    if do_check:
        rc = core.run_breadlog(built, box, cfg, check=True, trace=trace, timeout=timeout, env_extra=env_extra)
        out.check = rc
        for path, line, col in rc.missing():
            rel = byabs.get(path) or byabs.get(os.path.normpath(path))
            if rel is None:
                continue
            fo = out.files[rel]
            off = core.offset_of(fo.before, line, col)
            if off is None:
                fo.reported_bad.append((line, col))
            else:
                fo.reported.append(off)
        for path, line, col in rc.unusable():
            rel = byabs.get(path) or byabs.get(os.path.normpath(path))
            if rel is None:
                continue
            fo = out.files[rel]
            off = core.offset_of(fo.before, line, col)
            if off is not None:
                fo.unusable.append(off)
        if rc.trace:
            for t in rc.trace:
                rel = byabs.get(t["path"]) or byabs.get(os.path.normpath(t["path"]))
                if rel is not None:
                    out.files[rel].trace_check = t["entries"]
    out.lock_before = core.read_lock(lockp)
    if do_edit:
        re_ = core.run_breadlog(built, box, cfg, check=False, trace=trace, shim=shim, timeout=timeout, env_extra=env_extra)
        out.edit = re_
        for rel, fo in out.files.items():
            try:
                fo.after = box.read(rel)
            except OSError:
                fo.after = None
            if fo.after is None:
                fo.decomp_ok = False
                continue
            toks = decompose(fo.before, fo.after)
            if toks is None:
                fo.decomp_ok = False
            else:
                fo.tokens = toks
        if re_.trace:
            for t in re_.trace:
                rel = byabs.get(t["path"]) or byabs.get(os.path.normpath(t["path"]))
                if rel is not None and "Insert" in t["pass"]:
                    out.files[rel].trace_edit = t["entries"]
    out.lock_after = core.read_lock(lockp)
    if ambient:
        out.ambient_changed = ambient_mod.siblings_changed(box.proj, ambient)
    return out


def in_range(offsets, a, b):
    return [o for o in offsets if a <= o < b]


def expected_region(st, item_start, structured, no_kvp=False):
    """(lo, hi) inclusive byte offsets (file coordinates) where the token may be inserted."""
    if structured and not no_kvp:
        lo = item_start + st.after_target
        hi = item_start + (st.first_kv if st.first_kv is not None else st.quote)
        return lo, hi
    m = item_start + st.msg
    return m, m
