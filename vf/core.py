"""Core of the runtime-monitoring harness: build, sandbox, runner, snapshots, channels.

Only the python standard library is used. See DESIGN.md section 3.
"""
import fcntl
import hashlib
import json
import os
import random
import re
import resource
import shutil
import signal
import stat
import subprocess
import sys
import time

VERIF = os.path.dirname(os.path.dirname(os.path.abspath(__file__)))
REPO = os.environ.get("VF_REPO", "/repo")
BUILD = os.path.join(VERIF, ".build")
SHIM_SRC = os.path.join(VERIF, "shim", "fsshim.c")
SHIM_SO = os.path.join(BUILD, "fsshim.so")
TARGET = os.path.join(BUILD, "target" if REPO == "/repo" else "target-alt-" + hashlib.sha256(REPO.encode()).hexdigest()[:8])
NCPU = min(16, os.cpu_count() or 4)

U32MAX = 4294967295


class Inconclusive(Exception):
    """The check could not do its job (never a violation)."""


def seed():
    try:
        return int(os.environ.get("VERIF_SEED", "0"))
    except ValueError:
        return 0


def rng_for(*parts):
    h = hashlib.sha256(("|".join(str(p) for p in parts)).encode()).digest()
    return random.Random(int.from_bytes(h[:8], "big"))


# --------------------------------------------------------------------------- build

def _run(cmd, **kw):
    return subprocess.run(cmd, stdout=subprocess.PIPE, stderr=subprocess.STDOUT, text=True, **kw)


def cargo_env():
    env = dict(os.environ)
    env["CARGO_NET_OFFLINE"] = "true"
    env.pop("RUSTFLAGS", None)
    env["RUST_BACKTRACE"] = "0"
    return env


class Built:
    def __init__(self, path, hooks, profile, repo_head, dirty):
        self.path = path
        self.hooks = hooks
        self.profile = profile
        self.repo_head = repo_head
        self.dirty = dirty

    def info(self):
        d = {"binary_profile": self.profile, "hook": self.hooks, "repo_head": self.repo_head,
             "repo_dirty_digest": self.dirty}
        d.update(getattr(self, "probe", {}))
        return d


def repo_state():
    head = _run(["git", "-C", REPO, "rev-parse", "--short", "HEAD"]).stdout.strip()
    diff = subprocess.run(["git", "-C", REPO, "diff", "HEAD"], stdout=subprocess.PIPE).stdout
    return head, (hashlib.sha256(diff).hexdigest()[:12] if diff else "clean")


def build_shim():
    os.makedirs(BUILD, exist_ok=True)
    with open(os.path.join(BUILD, "lock"), "w") as lk:
        fcntl.flock(lk, fcntl.LOCK_EX)
        if (not os.path.exists(SHIM_SO)) or os.path.getmtime(SHIM_SO) < os.path.getmtime(SHIM_SRC):
            r = _run(["gcc", "-O2", "-fPIC", "-shared", "-w", "-o", SHIM_SO + ".tmp", SHIM_SRC, "-ldl"])
            if r.returncode != 0:
                raise Inconclusive("shim build failed: " + r.stdout[-2000:])
            os.replace(SHIM_SO + ".tmp", SHIM_SO)
    return SHIM_SO


def build_repo(profile="release", want_hooks=True, overflow_checks=False):
    """Build /repo's current working tree; returns Built with a private copy of the binary."""
    os.makedirs(BUILD, exist_ok=True)
    head, dirty = repo_state()
    tdir = TARGET if not overflow_checks else TARGET + "-ovf"
    with open(os.path.join(BUILD, "lock"), "w") as lk:
        fcntl.flock(lk, fcntl.LOCK_EX)
        env = cargo_env()
        if overflow_checks:
            env["RUSTFLAGS"] = "-C overflow-checks=on -C debug-assertions=on"
        base = ["cargo", "build", "--offline", "--manifest-path", os.path.join(REPO, "Cargo.toml"),
                "--target-dir", tdir, "--bin", "breadlog"]
        if profile == "release":
            base.append("--release")
        hooks = False
        out = ""
        ok = False
        if want_hooks:
            r = _run(base + ["--features", "verif-hooks"], env=env)
            out = r.stdout
            if r.returncode == 0:
                ok, hooks = True, True
        if not ok:
            r = _run(base, env=env)
            out += r.stdout
            ok = r.returncode == 0
        if not ok:
            raise Inconclusive("cargo build of /repo failed:\n" + out[-3000:])
        src = os.path.join(tdir, "release" if profile == "release" else "debug", "breadlog")
        bdir = os.path.join(BUILD, "bin")
        os.makedirs(bdir, exist_ok=True)
        dst = os.path.join(bdir, "breadlog-%d-%s%s" % (os.getpid(), profile, "-ovf" if overflow_checks else ""))
        shutil.copy2(src, dst)
    import atexit
    atexit.register(lambda: os.path.exists(dst) and os.unlink(dst))
    b = Built(dst, hooks, profile + ("+overflow-checks" if overflow_checks else ""), head, dirty)
    probe_spellings(b)
    return b


# Spellings the property texts do not settle (DESIGN 4.3): whether the tree under test treats them as log statements is
# measured once per check run on a probe file that holds the ordinary spelling too; the workloads then either use them
# (and hold the tool to what it showed on the probe) or leave them out. True until measured.
SPACED_BANG = True


def probe_spellings(built):
    global SPACED_BANG
    src = ('fn probe() {\n    info!("ordinary spelling");\n    info !("space before the bang");\n'
           '    info /* c */ !("comment before the bang");\n    info\n        !("name and bang on different lines");\n'
           '    info! ("space after the bang");\n}\n')
    try:
        with Box(tag="probe") as box:
            box.write("src/probe.rs", src)
            cfg = box.write("Breadlog.yaml", make_config(use_cache=False))
            r = run_breadlog(built, box, cfg, check=True, timeout=60)
        lines = sorted(l for _, l, _ in r.missing())
    except Exception:
        return
    built.probe = {"probe_missing_lines": lines}
    if 2 in lines:                      # the ordinary spelling was seen: the probe ran
        SPACED_BANG = all(x in lines for x in (3, 4, 6, 7))
        built.probe["layout_between_name_and_bang_recognised"] = SPACED_BANG


# --------------------------------------------------------------------------- sandbox

def scratch_base():
    for base in ("/dev/shm", "/var/tmp"):
        if os.path.isdir(base) and os.access(base, os.W_OK):
            return base
    raise Inconclusive("no scratch directory")


class Box:
    """A private sandbox: <root>/box is monitored (project, tmp, outside); <root>/logs is not."""
    _count = 0

    def __init__(self, base=None, tag="b"):
        Box._count += 1
        base = base or scratch_base()
        self.top = os.path.join(base, "vf-%d-%s%d-%x" % (os.getpid(), tag, Box._count, random.getrandbits(24)))
        self.root = os.path.join(self.top, "box")
        self.proj = os.path.join(self.root, "proj")
        self.tmp = os.path.join(self.root, "tmp")
        self.outside = os.path.join(self.root, "outside")
        self.logs = os.path.join(self.top, "logs")
        for d in (self.proj, self.tmp, self.outside, self.logs):
            os.makedirs(d)
        self._n = 0

    def write(self, rel, data, base=None):
        p = os.path.join(base or self.proj, rel)
        os.makedirs(os.path.dirname(p), exist_ok=True)
        if isinstance(data, str):
            data = data.encode("utf-8")
        with open(p, "wb") as f:
            f.write(data)
        return p

    def read(self, rel, base=None):
        with open(os.path.join(base or self.proj, rel), "rb") as f:
            return f.read()

    def logpath(self, name):
        self._n += 1
        return os.path.join(self.logs, "%s-%d" % (name, self._n))

    def close(self):
        shutil.rmtree(self.top, ignore_errors=True)

    def __enter__(self):
        return self

    def __exit__(self, *a):
        self.close()


def snapshot(root, content=True):
    """path -> (type, mode, size, mtime_ns, ino, link, sha/bytes)."""
    out = {}
    for dp, dns, fns in os.walk(root, followlinks=False):
        for name in dns + fns:
            p = os.path.join(dp, name)
            rel = os.path.relpath(p, root)
            st = os.lstat(p)
            if stat.S_ISLNK(st.st_mode):
                out[rel] = ("l", st.st_mode, 0, st.st_mtime_ns, st.st_ino, os.readlink(p), None)
            elif stat.S_ISDIR(st.st_mode):
                out[rel] = ("d", st.st_mode, 0, 0, st.st_ino, None, None)
            elif stat.S_ISREG(st.st_mode):
                try:
                    with open(p, "rb") as f:
                        data = f.read()
                except OSError:
                    data = None
                out[rel] = ("f", st.st_mode, st.st_size, st.st_mtime_ns, st.st_ino, None,
                            data if content else (hashlib.sha256(data).hexdigest() if data is not None else None))
            else:
                out[rel] = ("o", st.st_mode, 0, st.st_mtime_ns, st.st_ino, None, None)
    return out


def snap_diff(a, b, meta=True):
    """List of (path, what) differences between two snapshots."""
    d = []
    for p in sorted(set(a) | set(b)):
        if p not in a:
            d.append((p, "created"))
        elif p not in b:
            d.append((p, "removed"))
        else:
            x, y = a[p], b[p]
            if x[0] != y[0]:
                d.append((p, "type"))
            elif x[6] != y[6] or x[2] != y[2]:
                d.append((p, "content"))
            elif x[5] != y[5]:
                d.append((p, "link"))
            elif meta and (x[1] != y[1]):
                d.append((p, "mode"))
            elif meta and x[0] != "d" and (x[3] != y[3]):
                d.append((p, "mtime"))
            elif meta and x[4] != y[4]:
                d.append((p, "inode"))
    return d


def files_of(snap):
    return {p: v[6] for p, v in snap.items() if v[0] == "f"}


# --------------------------------------------------------------------------- running

RE_MISSING = re.compile(r"Missing reference in file (.+), line (\d+), column (\d+)\s*$")
RE_UNUSABLE = re.compile(r"Unusable reference will be ignored in file (.+), line (\d+), column (\d+)\s*$")
RE_TOTAL = re.compile(r"Total missing references \(all files\): (\d+)")
RE_TOTAL_FILE = re.compile(r"Total missing references in (.+): (\d+)\s*$")
RE_INSERTED = re.compile(r"Num\. inserted reference\(s\): (\d+)")
RE_FAILREAD = re.compile(r"Failed to read file (.+?): ")
RE_NEXTID = re.compile(r"Next reference ID: (\d+)")
RE_FOUND = re.compile(r"Found (\d+) file\(s\)")
RE_LOCK = re.compile(r"^next_reference_id:\s*(\S+)\s*$", re.M)


class Rec:
    """Run record of one Breadlog execution."""
    __slots__ = ("argv", "cwd", "rc", "sig", "out", "err", "cpu", "wall", "timed_out", "shim", "trace",
                 "strace", "rules", "blocked")

    def ended(self):
        if self.timed_out:
            return "timeout"
        if self.sig:
            return "signal:%d" % self.sig
        return "exit:%d" % self.rc

    def panicked(self):
        return self.rc == 101 or "panicked at" in self.err or self.sig in (signal.SIGABRT, signal.SIGSEGV, signal.SIGBUS, signal.SIGILL, signal.SIGFPE)

    def missing(self):
        return [(m.group(1), int(m.group(2)), int(m.group(3)))
                for m in (RE_MISSING.search(l) for l in self.out.splitlines()) if m]

    def unusable(self):
        return [(m.group(1), int(m.group(2)), int(m.group(3)))
                for m in (RE_UNUSABLE.search(l) for l in self.out.splitlines()) if m]

    def total_missing(self):
        m = RE_TOTAL.search(self.out)
        return int(m.group(1)) if m else None

    def inserted(self):
        m = RE_INSERTED.search(self.out)
        return int(m.group(1)) if m else None

    def failed_reads(self):
        return [m.group(1) for m in (RE_FAILREAD.search(l) for l in self.out.splitlines()) if m]

    def brief(self):
        return {"argv": self.argv[1:], "end": self.ended(), "stdout_tail": self.out[-600:], "stderr_tail": self.err[-400:],
                "rules": self.rules}


def parse_shim(path):
    """-> list of op dicts in order of n: n, kind, flags, bytes, tid, path, path2, ret, errno, fired."""
    ops = {}
    order = []
    if not os.path.exists(path):
        return []
    with open(path, "r", errors="replace") as f:
        for line in f:
            line = line.rstrip("\n")
            if not line:
                continue
            t = line[0]
            try:
                if t == "B":
                    _, n, kind, flags, nbytes, tid, rest = line.split(" ", 6)
                    p2 = None
                    if " -> " in rest:
                        rest, p2 = rest.split(" -> ", 1)
                    ops[int(n)] = {"n": int(n), "kind": kind, "flags": int(flags), "bytes": int(nbytes),
                                   "tid": int(tid), "path": rest, "path2": p2, "ret": None, "errno": None,
                                   "fired": None}
                    order.append(int(n))
                elif t == "A":
                    _, n, ret, err = line.split(" ")
                    ops[int(n)]["ret"] = int(ret)
                    ops[int(n)]["errno"] = int(err)
                elif t == "F":
                    _, n, act = line.split(" ", 2)
                    ops[int(n)]["fired"] = act
            except (ValueError, KeyError):
                continue
    return [ops[n] for n in sorted(order)]


def observe_blocked(pid, window=4.0, samples=5):
    """True iff, at every one of `samples` looks spread over `window` seconds, no thread of the process or of its descendants was
    runnable or in disk wait and the CPU time of all of them together did not advance by a single tick. The tool waits for nothing
    outside itself (no network, no terminal, its output is being read), so a process in that state is blocked on itself - a
    self-deadlock - and not merely slow: a slow process on a loaded machine is runnable (R) or consumes CPU. Decided on process
    state, not on the clock."""
    def snap():
        todo, seen, ticks, states = [pid], set(), 0, []
        while todo:
            q = todo.pop()
            if q in seen:
                continue
            seen.add(q)
            try:
                for t in os.listdir("/proc/%d/task" % q):
                    with open("/proc/%d/task/%s/stat" % (q, t)) as f:
                        st = f.read()
                    fld = st[st.rindex(")") + 2:].split()
                    states.append(fld[0])
                    ticks += int(fld[11]) + int(fld[12])
                    try:
                        with open("/proc/%d/task/%s/children" % (q, t)) as f:
                            todo += [int(x) for x in f.read().split()]
                    except OSError:
                        pass
            except (OSError, ValueError, IndexError):
                return None
        return ticks, states
    first = None
    for i in range(samples):
        sn = snap()
        if sn is None or not sn[1] or any(x != "S" for x in sn[1]):
            return False
        if first is None:
            first = sn[0]
        elif sn[0] != first:
            return False
        if i < samples - 1:
            time.sleep(window / (samples - 1))
    return True


def run_breadlog(built, box, config, check=False, cwd=None, rules=None, shim=False, trace=False, probe_blocked=None,
                 strace=False, timeout=120, env_extra=None, tmpdir=None, cfg_arg=None, async_signal=None, stdio_ops=False, stdin_tty=False,
                 argv_override=None, wrap=None, read_ops=False, nofile=None, on_first_fire=None):
    """Run the real binary once. config: absolute path of the yaml (cfg_arg overrides what is passed)."""
    argv = [built.path, "-c", cfg_arg or config]
    if check:
        argv.append("--check")
    if argv_override is not None:
        argv = [built.path] + list(argv_override)
    env = {"PATH": "/usr/bin:/bin", "RUST_BACKTRACE": "0", "TMPDIR": box.tmp if tmpdir is None else tmpdir, "HOME": box.outside,
           "LANG": "C.UTF-8"}
    rec = Rec()
    rec.rules = rules
    rec.blocked = False
    rec.shim = rec.trace = rec.strace = None
    shimlog = tracelog = stracelog = None
    if shim or rules:
        shimlog = box.logpath("shim")
        env["LD_PRELOAD"] = SHIM_SO
        env["VF_SHIM_ROOT"] = box.root
        if tmpdir and os.path.isabs(tmpdir) and not tmpdir.startswith(box.root + "/"):
            env["VF_SHIM_ROOT2"] = tmpdir
        env["VF_SHIM_LOG"] = shimlog
        if rules:
            env["VF_SHIM_RULES"] = rules
        if stdio_ops:
            env["VF_SHIM_STDIO"] = "1"
        if read_ops:
            env["VF_SHIM_READS"] = "1"
    if trace and built.hooks:
        tracelog = box.logpath("trace")
        env["BREADLOG_VERIF_TRACE"] = tracelog
    if env_extra:
        env.update(env_extra)
    full = (list(wrap) + argv) if wrap else argv
    if strace:
        stracelog = box.logpath("strace")
        full = ["strace", "-f", "-y", "-qq", "-s", "0", "-o", stracelog] + full
    t0 = time.time()
    r0 = resource.getrusage(resource.RUSAGE_CHILDREN)
    pty_fds = None
    if stdin_tty:
        import pty
        pty_fds = pty.openpty()      # an interactive invocation: stdin is a terminal
    pre = None
    if nofile:
        # a low descriptor limit for the child only (RLIMIT_NOFILE): descriptors that are not given back show up after few files
        def pre():
            resource.setrlimit(resource.RLIMIT_NOFILE, (nofile, nofile))
    p = subprocess.Popen(full, cwd=cwd or box.proj, env=env, stdout=subprocess.PIPE, stderr=subprocess.PIPE,
                         stdin=(pty_fds[1] if pty_fds else subprocess.DEVNULL), preexec_fn=pre)
    if pty_fds:
        os.close(pty_fds[1])
    rec.timed_out = False
    watcher = None
    if on_first_fire and shimlog:
        # "another process acts while breadlog is at operation k": the callable runs as soon as the shim log shows that an
        # injected action (typically a delay) has fired - deterministic in terms of operations, not of wall-clock time
        import threading

        def _watch():
            pos = 0
            while p.poll() is None:
                try:
                    with open(shimlog, "r", errors="replace") as f:
                        f.seek(pos)
                        chunk = f.read()
                        pos = f.tell()
                except OSError:
                    chunk = ""
                if "\nF " in "\n" + chunk:
                    try:
                        on_first_fire()
                    finally:
                        return
                time.sleep(0.003)
        watcher = threading.Thread(target=_watch, daemon=True)
        watcher.start()
    try:
        if async_signal:
            delay, signo = async_signal
            try:
                o, e = p.communicate(timeout=delay)
            except subprocess.TimeoutExpired:
                try:
                    os.kill(p.pid, signo)
                except ProcessLookupError:
                    pass
                o, e = p.communicate(timeout=timeout)
        elif probe_blocked:
            # (opt-in, for runs without injected delays) look at the process every `probe_blocked` seconds: one that is blocked on
            # itself is convicted at once instead of after the whole time limit
            t_end = time.time() + timeout
            while True:
                try:
                    o, e = p.communicate(timeout=min(probe_blocked, max(0.1, t_end - time.time())))
                    break
                except subprocess.TimeoutExpired:
                    if time.time() >= t_end:
                        raise
                    if observe_blocked(p.pid):
                        rec.blocked = True
                        raise
        else:
            o, e = p.communicate(timeout=timeout)
    except subprocess.TimeoutExpired:
        rec.timed_out = True
        if not rec.blocked and probe_blocked:
            rec.blocked = observe_blocked(p.pid)
        p.kill()
        o, e = p.communicate()
    if pty_fds:
        os.close(pty_fds[0])
    r1 = resource.getrusage(resource.RUSAGE_CHILDREN)
    rec.wall = time.time() - t0
    rec.cpu = (r1.ru_utime + r1.ru_stime) - (r0.ru_utime + r0.ru_stime)
    rec.argv = argv
    rec.cwd = cwd or box.proj
    rc = p.returncode
    rec.sig = -rc if rc < 0 else 0
    rec.rc = rc if rc >= 0 else None
    rec.out = o.decode("utf-8", "replace")
    rec.err = e.decode("utf-8", "replace")
    if shimlog:
        rec.shim = parse_shim(shimlog)
    if tracelog:
        rec.trace = []
        if os.path.exists(tracelog):
            with open(tracelog, "r", errors="replace") as f:
                for line in f:
                    try:
                        rec.trace.append(json.loads(line))
                    except ValueError:
                        pass
    if stracelog:
        rec.strace = stracelog
    return rec


def make_config(source_dir="src", use_cache=None, structured=None, extensions=None, macros=None, extra=""):
    macros = macros if macros is not None else [("log", "info"), ("log", "warn"), ("log", "error")]
    y = "---\nsource_dir: %s\n" % source_dir
    if use_cache is not None:
        y += "use_cache: %s\n" % ("true" if use_cache else "false")
    y += "rust:\n"
    if structured is not None:
        y += "  structured: %s\n" % ("true" if structured else "false")
    y += "  log_macros:\n"
    for mod, name in macros:
        y += "    - module: %s\n      name: %s\n" % (mod, name)
    if extensions is not None:
        y += "  extensions:\n"
        for e in extensions:
            y += "    - %s\n" % e
    return y + extra


def read_lock(path):
    """-> ('absent',None) | ('ok',int) | ('bad',text)"""
    if not os.path.exists(path):
        return ("absent", None)
    try:
        txt = open(path, "r", errors="replace").read()
    except OSError:
        return ("bad", None)
    m = RE_LOCK.search(txt)
    if m:
        try:
            v = int(m.group(1))
            if 0 <= v <= U32MAX:
                return ("ok", v)
        except ValueError:
            pass
    return ("bad", txt[:200])


LOCK_HEADER = ("# AUTO-GENERATED FILE - DON'T EDIT\n# If you would like to recalculate the next reference from your code, "
               "delete this file and\n# run Breadlog.\n\n")


def lock_text(n):
    return LOCK_HEADER + "next_reference_id: %d\n" % n


# --------------------------------------------------------------------------- line/col model (DESIGN 4.2)

def line_col(data, offset):
    """1-based (line, col) of byte offset in bytes `data`; columns in Unicode scalar values."""
    head = data[:offset]
    line = head.count(b"\n") + 1
    last = head.rfind(b"\n")
    seg = head[last + 1:]
    try:
        col = len(seg.decode("utf-8")) + 1
    except UnicodeDecodeError:
        col = len(seg.decode("utf-8", "replace")) + 1
    return line, col


def offset_of(data, line, col):
    """inverse of line_col (byte offset) or None."""
    pos = 0
    for _ in range(line - 1):
        nl = data.find(b"\n", pos)
        if nl < 0:
            return None
        pos = nl + 1
    end = data.find(b"\n", pos)
    seg = data[pos:end if end >= 0 else len(data)]
    try:
        s = seg.decode("utf-8")
    except UnicodeDecodeError:
        return None
    if col - 1 > len(s):
        return None
    return pos + len(s[:col - 1].encode("utf-8"))
