"""Tree-level workload generators: generated projects with ground truth (G-tree), real-code corpora (G-corpus),
mutation of both (G-mut).  DESIGN 3.6."""
import glob
import os
import subprocess

from . import core, gen

ID_CLASSES = ["none", "zero", "dense", "gaps", "dups", "mid", "near_max", "high"]


class TreeSpec:
    """files: rel -> bytes; truth: rel -> list of (start, end, msg_off, ref or None, kind) or None when unknown."""
    __slots__ = ("files", "truth", "structured", "macros", "existing", "missing", "idclass", "label", "gfs")


def safe_feat(rnd, structured):
    """A random canonical statement shape without hazard values."""
    f = gen.random_feat(rnd)
    f["ref"] = "none"
    return f


def gen_tree(rnd, nfiles=3, stmts=(0, 12), structured=False, idclass="none", frac_with_id=0.4, eol=None, label="",
             nearmax_k=None, missing_cap=None, complete_prob=0.0, directives=False):
    t = TreeSpec()
    t.files, t.truth, t.gfs = {}, {}, {}
    t.structured = structured
    t.macros = gen.DEFAULT_MACROS
    t.idclass = idclass
    t.label = label
    existing = []
    pool = None
    if idclass == "zero":
        pool = [0]
    elif idclass == "dense":
        pool = list(range(1, rnd.randrange(2, 40)))
    elif idclass == "gaps":
        pool = sorted(rnd.sample(range(1, 5000), rnd.randrange(1, 30)))
    elif idclass == "dups":
        pool = [rnd.randrange(1, 50) for _ in range(rnd.randrange(2, 20))]
    elif idclass == "mid":
        c = rnd.choice([2147483647, 2147483648, 65535, 65536, 16777216])
        pool = [c - rnd.randrange(0, 3) for _ in range(rnd.randrange(1, 6))] + [rnd.randrange(1, 100)]
    elif idclass == "high":
        c = core.U32MAX - rnd.randrange(5000, 100000)
        pool = [c - rnd.randrange(0, 50) for _ in range(rnd.randrange(1, 6))] + [rnd.randrange(1, 100)]
    elif idclass == "near_max":
        k = nearmax_k if nearmax_k is not None else rnd.randrange(0, 5)
        pool = [core.U32MAX - k] + [rnd.randrange(1, 1000) for _ in range(rnd.randrange(0, 4))]
    must_place = list(pool) if pool else []
    rnd.shuffle(must_place)
    nmissing = 0
    spelling = {}
    names = []
    for fi in range(nfiles):
        depth = rnd.randrange(0, 3)
        d = "/".join(rnd.choice(["a", "b", "core", "util"]) for _ in range(depth))
        name = "src/" + (d + "/" if d else "") + "f%d.rs" % fi
        names.append(name)
    # the file that holds the maximum existing id should not systematically be first or last
    for fi, name in enumerate(names):
        e = eol or rnd.choice(["\n", "\n", "\n", "\r\n"])
        gf = gen.GenFile(e)
        gf.raw("// %s file %d%s" % (label, fi, e))
        n = rnd.randrange(stmts[0], stmts[1] + 1)
        complete = idclass != "none" and rnd.random() < complete_prob
        # one file in ten spells every invocation with layout between the name and the `!`, and holds nothing else
        spaced = rnd.random() < 0.1
        spelling[name] = spaced
        for si in range(n):
            f = safe_feat(rnd, structured)
            if spaced:
                f["bang"] = rnd.choice(gen.BANG_SPACED)
                if f["msg"] == "macrotext":
                    f["msg"] = "plain"
                if f["pre"] == "stmt":
                    f["pre"] = "indent"
            if f["post"] == "eof":
                f["post"] = "semi"
            with_id = idclass != "none" and (complete or rnd.random() < frac_with_id)
            rid = None
            if with_id and must_place:
                rid = must_place.pop()
            elif with_id and pool and (idclass in ("dups",) or complete):
                rid = rnd.choice(pool)
            kv_ref = None
            nokvp = directives and structured and rnd.random() < 0.25
            if rid is not None:
                if structured and not nokvp:
                    rtxt = str(rid) if (rnd.random() > 0.15 or rid > 99999) else "%0*d" % (rnd.choice([2, 5, 10]), rid)
                    kv_ref = ("valid", rtxt, rnd.randrange(0, f["nkv"] + 1))
                    if rnd.random() < 0.1:
                        # the reference key written with a capture modifier of the log crate
                        kv_ref = kv_ref + (rnd.choice(["ref:?", "ref:%", "ref:debug", "ref:display"]),)
                else:
                    f["ref"] = "valid"
            if nokvp:
                f["pre"] = "indent"
            if rid is None and missing_cap is not None and nmissing >= missing_cap:
                continue
            pre, st, post = gen.build_stmt(f, "M%s_%d_%d" % (label, fi, si), rnd, eol=e, ref_id=rid, kv_ref=kv_ref)
            if nokvp:
                st.note = "nokvp"
                gf.raw("    " + rnd.choice(["// breadlog:no-kvp", "/* breadlog:no-kvp */", "// BREADLOG:NO-KVP"]) + e)
            gf.add_stmt(pre, st, post)
            gf.newline()
            if rid is not None:
                existing.append(rid)
            else:
                nmissing += 1
            if rnd.random() < 0.4 and not spaced:
                gf.raw("    " + gen.filler(rnd, e))
                gf.newline()
        t.gfs[name] = gf
    # ids that had no home yet: put them into a middle file
    if must_place:
        name = names[len(names) // 2]
        gf = t.gfs[name]
        for rid in must_place:
            f = dict(gen.NEUTRAL)
            if spelling.get(name):
                f["bang"] = "sp"
            kv_ref = ("valid", str(rid), 0) if structured else None
            if not structured:
                f["ref"] = "valid"
            pre, st, post = gen.build_stmt(f, "M%s_x%d" % (label, rid), rnd, eol=gf.eol, ref_id=rid, kv_ref=kv_ref)
            gf.add_stmt(pre, st, post)
            gf.newline()
            existing.append(rid)
    for name, gf in t.gfs.items():
        # the file may end right after its last statement (no trailing newline)
        if gf.items and rnd.random() < 0.15 and gf._buf and gf._buf[-1] == gf.eol:
            gf._buf.pop()
            gf._len -= len(gf.eol)
        t.files[name] = gf.data()
        t.truth[name] = [(it.start, it.end, it.start + it.stmt.msg,
                          (int(it.stmt.ref_kv) if (structured and it.stmt.ref_kv is not None)
                           else (it.stmt.ref_msg if (not structured or it.stmt.note == "nokvp") else None)), it) for it in gf.stmts()]
    t.existing = existing
    t.missing = nmissing
    return t


# ----------------------------------------------------------------------------- corpora

_REG_CACHE = {}


def registry_files():
    """(files using info!/warn!/error!, other .rs files) under ~/.cargo/registry/src, or ([], [])."""
    if "v" in _REG_CACHE:
        return _REG_CACHE["v"]
    base = os.path.expanduser("~/.cargo/registry/src")
    if not os.path.isdir(base):
        _REG_CACHE["v"] = ([], [])
        return _REG_CACHE["v"]
    try:
        r = subprocess.run(["grep", "-rlE", "--include=*.rs", r"\b(info|warn|error)!\s*\(", base],
                           stdout=subprocess.PIPE, stderr=subprocess.DEVNULL, timeout=120)
        hits = sorted(r.stdout.decode().split("\n"))
        hits = [h for h in hits if h]
    except Exception:
        hits = []
    _REG_CACHE["v"] = (hits, [])
    return _REG_CACHE["v"]


def corpus_dirs():
    out = []
    for name, path in (("rocket", os.path.join(core.REPO, "tests/rust_data/rocket")),
                       ("fib-rs", os.path.join(core.REPO, "tests/rust_data/fib-rs")),
                       ("breadlog-src", os.path.join(core.REPO, "src"))):
        if os.path.isdir(path):
            out.append((name, path))
    return out


def read_dir_files(path, exts=(".rs",)):
    files = {}
    for dp, dns, fns in os.walk(path):
        dns[:] = [d for d in dns if d not in ("target", ".git")]
        for fn in fns:
            if fn.endswith(exts):
                p = os.path.join(dp, fn)
                try:
                    with open(p, "rb") as f:
                        files[os.path.join("src", os.path.relpath(p, path))] = f.read()
                except OSError:
                    pass
    return files


def corpus_shards(rnd, nshards, registry_n=0, max_file_bytes=400000):
    """-> list of (label, files dict). Corpus files are sharded so that 16 workers share the load."""
    allfiles = []
    for name, path in corpus_dirs():
        for rel, data in sorted(read_dir_files(path).items()):
            allfiles.append((name + "/" + rel, data))
    reg_used = 0
    if registry_n:
        hits, _ = registry_files()
        if hits:
            pick = rnd.sample(hits, min(registry_n, len(hits)))
            for p in pick:
                try:
                    if os.path.getsize(p) > max_file_bytes:
                        continue
                    with open(p, "rb") as f:
                        allfiles.append(("registry/" + p.split("/registry/src/", 1)[1], f.read()))
                    reg_used += 1
                except OSError:
                    pass
    shards = [dict() for _ in range(nshards)]
    for i, (lab, data) in enumerate(allfiles):
        rel = "src/%05d_%s" % (i, lab.replace("/", "__")[-80:])
        if not rel.endswith(".rs"):
            rel += ".rs"
        shards[i % nshards][rel] = data
    return [("corpus-shard-%d" % i, s) for i, s in enumerate(shards) if s], reg_used


# ----------------------------------------------------------------------------- mutation

UNI = ["é", "世", "\u0085", " ", "‎", "‏", "́", "ß", "𝓍", "﻿", "İ", "ǅ", " ", "ａ"]
TOKENS = ['info!(', 'warn!("', 'error!(target: "t", ', '"', '\\"', "//", "/*", "*/", "\n", "\r\n", "[ref: 7] ", "ref = 7; ",
          "ref = ", "!(", "(", ")", ";", ",", "log::", "::", "target:", "'", "r#\"", "\"#", "breadlog:ignore",
          "// breadlog:no-kvp\n", "{", "}", "a = 1; ", ":?", ":%", " = ", "\t", "\\", "\\\\"]


def mutate(data, rnd, nmut=None):
    """byte/char/token-level mutation with Unicode injection; returns bytes."""
    b = bytearray(data)
    n = nmut or rnd.choice([1, 1, 2, 3, 5, 8])
    for _ in range(n):
        kind = rnd.choice(["flip", "insbyte", "delbyte", "uni", "tok", "deltok", "dup", "crlf", "nonl", "badutf", "trunc"])
        pos = rnd.randrange(0, len(b) + 1) if b else 0
        if kind == "flip" and b:
            p = min(pos, len(b) - 1)
            b[p] ^= 1 << rnd.randrange(8)
        elif kind == "insbyte":
            b[pos:pos] = bytes([rnd.randrange(256)])
        elif kind == "delbyte" and b:
            p = min(pos, len(b) - 1)
            del b[p:p + rnd.choice([1, 1, 2, 7])]
        elif kind == "uni":
            b[pos:pos] = rnd.choice(UNI).encode("utf-8")
        elif kind == "tok":
            b[pos:pos] = rnd.choice(TOKENS).encode("utf-8")
        elif kind == "deltok" and b:
            # delete a punctuation char near pos
            for p in range(pos, min(len(b), pos + 200)):
                if b[p] in b'"();,!{}':
                    del b[p]
                    break
        elif kind == "dup" and b:
            ln = rnd.choice([3, 10, 40, 200])
            seg = b[pos:pos + ln]
            b[pos:pos] = seg
        elif kind == "crlf":
            b = bytearray(bytes(b).replace(b"\r\n", b"\n").replace(b"\n", b"\r\n")) if rnd.random() < 0.5 else b
        elif kind == "nonl":
            while b and b[-1] in b"\r\n":
                b.pop()
        elif kind == "badutf":
            b[pos:pos] = rnd.choice([b"\xff", b"\xc3", b"\xe4\xb8", b"\xf0\x9f\x98", b"\xed\xa0\x80", b"\xc0\xaf"])
        elif kind == "trunc" and b:
            del b[pos:]
    return bytes(b)
