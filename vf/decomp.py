"""Insertion decomposition (DESIGN 4.1): after == before + inserted reference tokens."""
import re

TOK = re.compile(rb"\[ref: (\d+)\] |ref = (\d+)(?:; |, )")
MAXTOK = 32


def _common(a, ai, b, bi):
    """length of the common prefix of a[ai:] and b[bi:] (memcmp-speed galloping)."""
    n = min(len(a) - ai, len(b) - bi)
    if n <= 0:
        return 0
    if a[ai:ai + n] == b[bi:bi + n]:
        return n
    lo = 0
    step = 64
    # gallop
    while lo + step <= n and a[ai + lo:ai + lo + step] == b[bi + lo:bi + lo + step]:
        lo += step
        step *= 2
    hi = min(n, lo + step)
    # first mismatch is in [lo, hi)
    while hi - lo > 1:
        mid = (lo + hi) // 2
        if a[ai + lo:ai + mid] == b[bi + lo:bi + mid]:
            lo = mid
        else:
            hi = mid
    return lo


def decompose(before, after, prefer_late=False, limit=200000):
    """-> list of dicts {off (in before), aoff (in after), tok (bytes), id (int), style ('msg'|'kv')} or None (FAIL).

    Deleting exactly the returned tokens from `after` yields `before`.
    """
    if before == after:
        return []
    if len(after) < len(before):
        return None
    # iterative DFS over (i in before, j in after, tokens)
    stack = [(0, 0, ())]
    steps = 0
    while stack:
        i, j, toks = stack.pop()
        steps += 1
        if steps > limit:
            return None
        k = _common(after, j, before, i)
        i += k
        j += k
        if j == len(after):
            if i == len(before):
                return [dict(off=t[0], aoff=t[1], tok=t[2], id=t[3], style=t[4]) for t in toks]
            continue
        # mismatch (or before exhausted): a token must start at s in [j-MAXTOK, j] and cover j
        cands = []
        lo = max(j - MAXTOK, (toks[-1][1] + len(toks[-1][2])) if toks else 0)
        for s in range(lo, j + 1):
            m = TOK.match(after, s)
            if m and m.end() >= j:
                back = j - s
                if i - back < 0:
                    continue
                # the part of the token before j must equal what we matched from before (it does: common prefix)
                num = m.group(1) or m.group(2)
                cands.append((i - back, m.end(), (i - back, s, m.group(0), int(num), "msg" if m.group(1) else "kv")))
        # explore earliest start first by default => push in reverse
        if not prefer_late:
            cands.reverse()
        for ni, nj, t in cands:
            if len(after) - nj < len(before) - ni:
                continue
            stack.append((ni, nj, toks + (t,)))
    return None


def strip_tokens(after, toks):
    out = bytearray()
    pos = 0
    for t in toks:
        out += after[pos:t["aoff"]]
        pos = t["aoff"] + len(t["tok"])
    out += after[pos:]
    return bytes(out)


if __name__ == "__main__":
    b = b'info!("x"); info!(a=1; "y"); "[ref: 5] z"'
    a = b'info!("[ref: 1] x"); info!(ref = 2, a=1; "y"); "[ref: 5] [ref: 5] z"'
    d = decompose(b, a)
    print(d)
    assert strip_tokens(a, d) == b
    assert decompose(b"abc", b"abd") is None
    assert decompose(b"abc", b"ab") is None
    big = b"x" * 1000000
    import time
    t = time.time()
    d = decompose(big + b'"m"' + big, big + b'"[ref: 77] m"' + big)
    print(len(d), time.time() - t)
