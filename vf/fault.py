"""Shared helpers for the fault / crash / signal checks (C02 C07 C08 C18): project builders, op phases, post-state oracle."""
import os

from . import ambient as ambient_mod
from . import core, gen, trees
from .decomp import decompose

ERRNO = {"EIO": 5, "ENOSPC": 28, "EACCES": 13, "EXDEV": 18, "EROFS": 30, "EMFILE": 24, "EDQUOT": 122, "ENOENT": 2, "EPERM": 1,
         "EEXIST": 17, "EINTR": 4, "EBUSY": 16, "ENAMETOOLONG": 36, "ETXTBSY": 26, "ENOTEMPTY": 39, "EISDIR": 21, "EPIPE": 32, "EAGAIN": 11, "ETIMEDOUT": 110}


class Project:
    """A small project description that can be materialised into any Box."""

    def __init__(self, files, structured=False, use_cache=None, lock=None, extra=None, label="", hardlinks=None, ambient=None):
        self.files = files            # rel -> bytes (in scope, .rs below src/)
        self.structured = structured
        self.use_cache = use_cache
        self.lock = lock              # text or None
        self.extra = extra or {"README.md": b"# project\ninfo!(\"not source\")\n", "src/notes.txt": b"notes info!(\"x\")\n"}
        self.label = label
        self.hardlinks = hardlinks or {}   # source rel -> second name (outside source_dir) of the same inode
        self.ambient = ambient             # vf.ambient state (permission bits, mtimes, stale lock scratch); siblings live in extra
        if ambient and ambient.get("siblings"):
            self.extra = dict(self.extra)
            self.extra.update(ambient["siblings"])

    def materialise(self, box):
        # (some file systems list a directory in the order its entries were created - tmpfs: newest first -, so the order of creation
        # decides the order in which the tool walks the tree; it is fixed per project, and differs from project to project)
        order = sorted(self.files)
        core.rng_for("creation-order", self.label, len(order), sum(len(d) for d in self.files.values())).shuffle(order)
        for rel in order:
            box.write(rel, self.files[rel])
        for rel, other in self.hardlinks.items():
            o = os.path.join(box.proj, other)
            os.makedirs(os.path.dirname(o), exist_ok=True)
            os.link(os.path.join(box.proj, rel), o)
        for rel, d in self.extra.items():
            box.write(rel, d)
        cfg = box.write("Breadlog.yaml", core.make_config(structured=True if self.structured else None, use_cache=self.use_cache))
        if self.lock is not None:
            with open(os.path.join(box.proj, "Breadlog.lock"), "w") as f:
                f.write(self.lock)
        if self.ambient:
            ambient_mod.apply(box.proj, dict(self.ambient, siblings={}))
        return cfg


def small_project(rnd, nfiles=3, stmts=(1, 4), structured=False, use_cache=None, lock=None, big=None, label="", ambient_p=0.3, ambient_kind=None):
    files = {}
    for i in range(nfiles):
        eol = rnd.choice(["\n", "\n", "\r\n"])
        gf = gen.GenFile(eol)
        gf.raw("// %s file %d%s" % (label, i, eol))
        n = rnd.randrange(stmts[0], stmts[1] + 1)
        for k in range(n):
            f = dict(gen.NEUTRAL)
            f["nkv"] = rnd.choice([0, 1])
            f["target"] = rnd.choice(["none", "plain"])
            f["msg"] = rnd.choice(["plain", "unicode", "placeholder"])
            f["pre"] = "indent"
            if k > 0 and rnd.random() < 0.2:         # the first statement of every file lacks a reference: every file has work
                f["ref"] = "valid"
            kv_ref = None
            if structured and f["ref"] == "valid":
                f["ref"] = "none"
                kv_ref = ("valid", str(rnd.randrange(1, 50)), 0)
            pre, st, post = gen.build_stmt(f, "F%s_%d_%d" % (label, i, k), rnd, eol=eol, ref_id=rnd.randrange(1, 50), kv_ref=kv_ref)
            gf.add_stmt(pre, st, post)
            gf.newline()
        files["src/f%d.rs" % i] = gf.data()
    if big:
        eol = "\n"
        gf = gen.GenFile(eol)
        k = 0
        while gf._len < big:
            f = dict(gen.NEUTRAL)
            pre, st, post = gen.build_stmt(f, "BIG%s_%d" % (label, k), rnd, eol=eol)
            gf.add_stmt(pre, st, post)
            gf.newline()
            # ~150 statements whatever the size: run time is O(statements x file size) (DESIGN 13.2)
            target = gf._len + max(400, big // 150)
            while gf._len < target:
                gf.raw("    // " + "-=" * rnd.randrange(20, 400) + eol)
            k += 1
        files["src/big.rs"] = gf.data()
    if ambient_kind:
        amb = ambient_mod.choose(rnd, files, p=1.1, kinds=[ambient_kind])
    else:
        amb = ambient_mod.choose(rnd, files, p=ambient_p) if ambient_p else None
    return Project(files, structured=structured, use_cache=use_cache, lock=lock, label=label, ambient=amb)


def phase_of(op, box_root=None):
    """protocol phase of one shim op, from its kind and path."""
    p = op["path"] or ""
    k = op["kind"]
    if k == "stdio":
        return "log-line"
    base = os.path.basename(p)
    if base == "Breadlog.yaml":
        return "config-" + ("open" if k.startswith("open") else k)
    if base.startswith("Breadlog.lock"):
        return "lock-" + {"openr": "read-open", "openw": "open", "write": "write", "close": "close"}.get(k, k)
    if "Breadlog.lock" in base and base != "Breadlog.lock":
        # the lock's own scratch file, whatever it is called (Breadlog.lock.tmp, .Breadlog.lock.123.tmp, ...)
        return "lock-" + {"openr": "read-open", "openw": "open", "write": "write", "close": "close", "rename": "rename", "unlink": "unlink", "fsync": "fsync"}.get(k, k)
    is_scratch = (base.startswith("breadlog-") and (base.endswith(".tmp") or base.endswith(".tmp (deleted)"))) or \
                 (k in ("openw", "write", "pwrite", "close", "unlink", "rename", "fsync", "ftruncate") and not p.endswith(".rs") and not p.endswith(".rs (deleted)")
                  and base not in ("Breadlog.yaml", "Breadlog.lock") and ("/src/" in p or "/tmp/" in p) and "." in base and k != "opendir")
    if is_scratch:
        return "tmp-" + {"openw": "create", "write": "write", "close": "close", "unlink": "unlink", "rename": "rename", "fsync": "fsync"}.get(k, k)
    if k == "opendir":
        return "discovery"
    if k == "rename":
        return "src-renamed-away" if (p.endswith(".rs") and "/tmp/" not in p) else "rename"
    if p.endswith(".rs") or p.endswith(".rs (deleted)"):
        if k == "openr":
            return "src-read-open"
        if k == "close":
            return "src-close"
        if k in ("write", "pwrite", "ftruncate", "truncate"):
            return "src-write-through-name"
        if k == "openw":
            return "src-open-for-writing"
        return "src-" + k
    return "other-" + k


def foreign_tmpdir(box):
    """A TMPDIR on another filesystem than the sandbox (genuine EXDEV on rename), or None."""
    other = "/var/tmp" if box.top.startswith("/dev/shm") else "/dev/shm"
    if not os.path.isdir(other) or os.stat(other).st_dev == os.stat(box.top).st_dev:
        return None
    d = os.path.join(other, "vf-xdev-%d-%s" % (os.getpid(), os.path.basename(box.top)))
    os.makedirs(d, exist_ok=True)
    return d


def read_fault_rules(ops):
    """Injections on the read(2) calls the run makes on source files: the read fails, returns only part of what was asked for
    (legal: FUSE / NFS transfer sizes), or returns a part and the next one fails; plus 'every read is short'."""
    out = []
    for o in ops:
        if o["kind"] != "read" or not (o["path"] or "").endswith(".rs"):
            continue
        k = o["n"]
        for e in ("EIO", "EINTR", "EACCES"):
            out.append(("read-%s@%d" % (e, k), "n=%d,act=errno:%d" % (k, ERRNO[e])))
        if o["bytes"] > 1:
            out.append(("read-short@%d" % k, "n=%d,act=short" % k))
            out.append(("read-short+EIO@%d" % k, "n=%d,act=short;n=%d,kind=read,act=errno:5" % (k, k + 1)))
    if out:
        out.append(("all-reads-short", "kind=read,act=short"))
    return out


def clean_reference(built, proj, check=False, xdev=False, stdio_ops=False, read_ops=False):
    """Run once without injection; returns (ops, after_files, rec, expected_offsets per file)."""
    import shutil
    with core.Box(tag="ref") as box:
        cfg = proj.materialise(box)
        td = foreign_tmpdir(box) if xdev else None
        try:
            rec = core.run_breadlog(built, box, cfg, check=check, shim=True, tmpdir=td, stdio_ops=stdio_ops, read_ops=read_ops)
        finally:
            if td:
                shutil.rmtree(td, ignore_errors=True)
        after = {rel: box.read(rel) for rel in proj.files}
        lock = core.read_lock(os.path.join(box.proj, "Breadlog.lock"))
        root = box.root
    exp = {}
    for rel, b in proj.files.items():
        t = decompose(b, after[rel])
        exp[rel] = None if t is None else sorted(x["off"] for x in t)
    ops = [dict(o, path=o["path"].replace(root, "<box>"), path2=(o["path2"] or "").replace(root, "<box>") or None) for o in rec.shim]
    return ops, after, rec, exp, lock


def post_state(proj, box, expected_offsets):
    """Classify every source file after a run: 'original' | 'complete' | 'torn:<why>'. Also returns ids on disk."""
    states = {}
    ids = []
    for rel, before in proj.files.items():
        try:
            after = box.read(rel)
        except OSError:
            states[rel] = "torn:missing"
            continue
        if after == before:
            states[rel] = "original"
            continue
        t = decompose(before, after)
        if t is None:
            why = "truncated" if before.startswith(after) or len(after) < len(before) else "not-insert-only"
            if after and (after in before or before[:len(after)] == after):
                why = "truncated"
            states[rel] = "torn:" + why
            continue
        offs = sorted(x["off"] for x in t)
        ids += [x["id"] for x in t]
        want = expected_offsets.get(rel)
        if want is not None and offs == want:
            states[rel] = "complete"
        elif want is None:
            states[rel] = "complete?"
        else:
            states[rel] = "torn:partial-insertions" if set(offs) < set(want) else "torn:unexpected-insertions"
    return states, ids


def others_changed(proj, box):
    bad = []
    for rel, other in proj.hardlinks.items():
        # the second name lies outside the source directory: it must keep the original bytes whatever happens to the first
        try:
            if box.read(other) != proj.files[rel]:
                bad.append(other + " (second hard link of %s)" % rel)
        except OSError:
            bad.append(other + " (missing)")
    for rel, d in proj.extra.items():
        try:
            if box.read(rel) != d:
                bad.append(rel)
        except OSError:
            bad.append(rel + " (missing)")
    return bad


def tmp_leftovers(box):
    return sorted(os.listdir(box.tmp))
