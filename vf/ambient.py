"""Ambient state: things around a project that are not part of breadlog's documented interface and therefore must make no
difference to any property - permission bits of source files, modification times, stale scratch files left by earlier
(killed) runs of this or another tool, editor droppings beside the sources.  The checks apply a random ambient state to a
share of their cases and keep their oracles unchanged (DESIGN 13.9)."""
import os

from . import core

KINDS = ["ro_sources", "stale_lock_tmp", "mtimes", "siblings", "ancestor_lock", "mix"]


def stale_lock_texts(rnd, mx=0):
    """Contents a left-over Breadlog.lock.tmp may have: an older valid lock, a newer one, a torn one, nothing."""
    return [core.lock_text(1), core.lock_text(max(1, mx)), core.lock_text(max(1, mx - rnd.randrange(0, 4))),
            core.lock_text(mx + 1 + rnd.randrange(0, 50)), core.lock_text(rnd.randrange(1, 100)), core.lock_text(core.U32MAX),
            core.LOCK_HEADER + "next_reference_id: ", core.LOCK_HEADER, "", "next_reference_id: x\n", "\x00\x00\x00"]


def choose(rnd, rels, p=0.35, mx=0, kinds=None):
    """-> dict(kind, modes{rel:mode}, stale_lock_tmp text|None, mtimes{rel:epoch}|{}, lock_mtime, siblings{rel:bytes})"""
    amb = {"kind": "plain", "modes": {}, "stale_lock_tmp": None, "mtimes": {}, "lock_mtime": None, "siblings": {}, "ancestor_lock": None}
    rels = sorted(rels)
    if not rels or rnd.random() >= p:
        return amb
    kind = rnd.choice(kinds or KINDS)
    amb["kind"] = kind
    ks = [kind] if kind != "mix" else rnd.sample(KINDS[:-1], 2)
    for k in ks:
        if k == "ro_sources":
            some = rels if rnd.random() < 0.5 else rnd.sample(rels, max(1, len(rels) // 2))
            for r in some:
                amb["modes"][r] = rnd.choice([0o444, 0o444, 0o400, 0o555, 0o440])
        elif k == "stale_lock_tmp":
            amb["stale_lock_tmp"] = rnd.choice(stale_lock_texts(rnd, mx))
        elif k == "mtimes":
            how = rnd.choice(["old", "old", "future", "scattered"])
            for r in rels:
                if how == "old":
                    amb["mtimes"][r] = 1000000000 + rnd.randrange(0, 10 ** 6)
                elif how == "future":
                    amb["mtimes"][r] = 2100000000 + rnd.randrange(0, 10 ** 6)
                elif rnd.random() < 0.5:
                    amb["mtimes"][r] = rnd.choice([1000000000, 1500000000, 2100000000])
            amb["lock_mtime"] = rnd.choice([None, 1200000000, 2000000000])
        elif k == "ancestor_lock":
            # another project's lock in the directory above the configuration file (a workspace root): not this project's lock
            amb["ancestor_lock"] = rnd.choice(stale_lock_texts(rnd, mx)[:6])
        elif k == "siblings":
            # files next to the configuration whose names resemble the lock's or the tool's own scratch names
            for name in ["Breadlog.tmp"] + rnd.sample(["Breadlog.lock.bak", "Breadlog.yaml.tmp", "Breadlog.lock~", "Breadlog.lock.orig", ".Breadlog.lock.swp", "Breadlog.new"], 2):
                amb["siblings"][name] = b"# a draft kept next to the configuration\nnext_reference_id: 3\n"
            for r in rnd.sample(rels, min(len(rels), 2)):
                stem = r[:-3] if r.endswith(".rs") else r
                for name in [stem + ".tmp", r + ".tmp"] + rnd.sample([r + ".breadlog-tmp", r + "~", r + ".orig", r + ".bak", stem + ".rs.new",
                                        os.path.join(os.path.dirname(r), "." + os.path.basename(r) + ".swp"),
                                        os.path.join(os.path.dirname(r), "breadlog-0123abcd.tmp")], 2):
                    amb["siblings"][name] = ("// sibling of %s\nfn s() { info!(\"sibling file, not source\"); }\n" % r).encode() * rnd.choice([1, 1, 40])
    return amb


def apply(proj_dir, amb, lock_dir=None):
    """Apply after the project files (and the lock, if any) have been written."""
    lock_dir = lock_dir or proj_dir
    for rel, data in amb["siblings"].items():
        p = os.path.join(proj_dir, rel)
        os.makedirs(os.path.dirname(p), exist_ok=True)
        with open(p, "wb") as f:
            f.write(data)
    if amb.get("ancestor_lock") is not None:
        with open(os.path.join(os.path.dirname(os.path.abspath(lock_dir)), "Breadlog.lock"), "w") as f:
            f.write(amb["ancestor_lock"])
    if amb["stale_lock_tmp"] is not None:
        with open(os.path.join(lock_dir, "Breadlog.lock.tmp"), "w") as f:
            f.write(amb["stale_lock_tmp"])
    for rel, t in amb["mtimes"].items():
        p = os.path.join(proj_dir, rel)
        if os.path.exists(p):
            os.utime(p, (t, t))
    lp = os.path.join(lock_dir, "Breadlog.lock")
    if amb["lock_mtime"] and os.path.exists(lp):
        os.utime(lp, (amb["lock_mtime"], amb["lock_mtime"]))
    for rel, mode in amb["modes"].items():
        p = os.path.join(proj_dir, rel)
        if os.path.exists(p):
            os.chmod(p, mode)


def siblings_changed(proj_dir, amb):
    bad = []
    for rel, data in amb["siblings"].items():
        try:
            with open(os.path.join(proj_dir, rel), "rb") as f:
                if f.read() != data:
                    bad.append(rel)
        except OSError:
            bad.append(rel + " (missing)")
    return bad


def label(amb):
    return amb["kind"]


def from_json(d):
    """Rebuild an ambient state from its JSON form in a replay bundle."""
    if not d:
        return None
    amb = {"kind": d.get("kind", "plain"), "modes": {k: int(v) for k, v in (d.get("modes") or {}).items()},
           "stale_lock_tmp": d.get("stale_lock_tmp"), "mtimes": {k: int(v) for k, v in (d.get("mtimes") or {}).items()},
           "lock_mtime": d.get("lock_mtime"), "siblings": {}, "ancestor_lock": d.get("ancestor_lock")}
    for k, v in (d.get("siblings") or {}).items():
        amb["siblings"][k] = bytes.fromhex(v["hex"]) if isinstance(v, dict) else v.encode("utf-8")
    return amb
