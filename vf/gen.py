"""Workload generators with ground truth (DESIGN 3.6, 4.3).

A generated file is a list of Items. Each statement Item knows, in bytes relative to its own
start: where its '(' is, where the target argument ends, where the first key-value starts,
where the message literal's content starts, and what reference (if any) it carries.
"""
import random

from . import core

DEFAULT_MACROS = [("log", "info"), ("log", "warn"), ("log", "error")]

# ----------------------------------------------------------------------------- feature model

_KV_SHAPES = ["ident", "field", "uint", "float", "bool", "str", "str_semi", "str_comma", "str_escq", "str_eq",
              "mod_q", "mod_debug", "mod_pct", "mod_display", "mod_err", "mod_sval", "mod_serde",
              "short", "short_q", "short_pct", "char_eq", "char_escq", "char_nl", "str_after_op", "str_in_call", "cmp_lt", "cmp_gt", "shift", "mod_spaced"]
FEATURES = {
    "path": ["bare", "qual"],
    "macro": [0, 1, 2, 3, 4],          # index into the configured macro set (modulo its length)
    "target": ["none", "plain", "spacey", "colons", "punct", "slashes", "blockopen", "escq", "trail_backslash"],
    "nkv": [0, 1, 2, 3],
    "kv0": list(_KV_SHAPES),
    "kv1": list(_KV_SHAPES),
    "kv2": list(_KV_SHAPES),
    "msg": ["plain", "placeholder", "escquote", "unicode", "reflike_inside", "commentish", "parens", "empty",
            "braces", "bang", "macrotext", "lead_digit", "lead_bracket", "lead_space", "lead_backslash", "trail_backslash"],
    "trail": ["none", "pos1", "pos2", "named", "str"],
    "lay": ["tight", "space", "nl", "nl0", "blockc", "linec", "tabs", "exotic"],
    "pre": ["bol", "indent", "brace", "semi", "arrow", "closure", "call", "stmt", "strlit", "charlit", "eq",
            "uni_indent", "kw_return", "kw_break", "ident_comment", "in_format_arg", "in_macro_block"],
    "post": ["semi", "paren", "comma", "brace", "eof", "semi_str"],
    "ref": ["none", "valid", "nearmiss"],
    # layout between the macro name, the `!` and the opening bracket (same token sequence for rustc and for the grammar)
    "bang": ["tight", "tight", "tight", "sp", "cm", "sp_after", "nl", "both"],
}
BANG_SPACED = ["sp", "cm", "nl", "both"]
# values that an *open* finding names as a cross-statement hazard or that currently fail: generated only
# in dedicated small files (DESIGN 6 "Cascades").
HAZARD = {
    "pre": ["str_slashes", "str_blockopen"],
    "trail": ["str_slashes"],
}

KV_KEYS = ["a", "b", "user_id", "k9", "_x", "naïve", "count", "r", "reference", "refx", "xref"]
IDENTS = ["x", "val", "self_id", "n", "user", "cfg", "_tmp", "_"]


def kv_text(shape, key, rnd):
    v = {
        "ident": "%s = %s" % (key, rnd.choice(IDENTS)),
        "field": "%s = %s.%s" % (key, rnd.choice(IDENTS), rnd.choice(["id", "name", "len"])),
        "uint": "%s = %d" % (key, rnd.choice([0, 1, 42, 65535, 4294967295, 123456789012])),
        "float": "%s = %s" % (key, rnd.choice(["1.5", "0.25", "10.0"])),
        "bool": "%s = %s" % (key, rnd.choice(["true", "false"])),
        "str": '%s = "%s"' % (key, rnd.choice(["v", "some text", "x=y", "a b c", "ref = 5", "[ref: 7] "])),
        "str_semi": '%s = "%s"' % (key, rnd.choice(["a;b", ";", "x; y; z", 'ref = 5; '])),
        "str_eq": '%s = "%s"' % (key, rnd.choice(["x=y", "a = b", "==", "k=\\\"v\\\""])),
        "str_comma": '%s = "%s"' % (key, rnd.choice(["a,b", ",", "x, y", "ref = 5, "])),
        "str_escq": '%s = "%s"' % (key, rnd.choice(['q\\"q', '\\"', 'say \\"hi\\"', 'C:\\\\', 'a\\\\'])),
        "mod_q": "%s:? = %s" % (key, rnd.choice(IDENTS)),
        "mod_debug": "%s:debug = %s" % (key, rnd.choice(IDENTS)),
        "mod_pct": "%s:%% = %s" % (key, rnd.choice(IDENTS)),
        "mod_display": "%s:display = %s" % (key, rnd.choice(IDENTS)),
        "mod_err": "%s:err = %s" % (key, rnd.choice(IDENTS)),
        "mod_sval": "%s:sval = %s" % (key, rnd.choice(IDENTS)),
        "mod_serde": "%s:serde = %s" % (key, rnd.choice(IDENTS)),
        # values ending in a character literal (no separator characters inside the quotes)
        "char_eq": "%s = %s == '%s'" % (key, rnd.choice(["c", "ch"]), rnd.choice(["x", "=", "\"", "é", "/"])),
        "char_escq": "%s = %s != '\\''" % (key, rnd.choice(["c", "ch"])),
        "char_nl": "%s = %s == '\\n'" % (key, rnd.choice(["c", "ch"])),
        # a string literal that is not the first token of the value, directly followed by the separator
        "str_after_op": '%s = %s == "%s"' % (key, rnd.choice(IDENTS[:4]), rnd.choice(["s", "a,b", "x;y", ""])),
        "str_in_call": '%s = %s.get("%s")' % (key, rnd.choice(IDENTS[:4]), rnd.choice(["key", "a b"])),
        # comparison and shift operators (not brackets), and layout between the colon and the capture modifier
        "cmp_lt": "%s = %s %s %s" % (key, rnd.choice(IDENTS[:4]), rnd.choice(["<", "<=", "<<"]), rnd.choice(["min", "10", "limit"])),
        "cmp_gt": "%s = %s %s %s" % (key, rnd.choice(IDENTS[:4]), rnd.choice([">", ">=", ">>"]), rnd.choice(["max", "3", "limit"])),
        "shift": "%s = 1 << %s" % (key, rnd.choice(["4", "n"])),
        "mod_spaced": "%s%s%s = %s" % (key, rnd.choice([": ", " : ", ":\t", ": /* how */ "]), rnd.choice(["?", "debug", "%", "display"]), rnd.choice(IDENTS[:4])),
        "short": "%s" % key,
        "short_q": "%s:?" % key,
        "short_pct": "%s:%%" % key,
    }
    return v[shape]


def msg_text(cls, marker, rnd):
    m = marker
    return {
        "plain": "%s plain message" % m,
        "placeholder": "%s value {} and {:?} and {x}" % m,
        "escquote": '%s say \\"hi\\" and \\\\ done' % m,
        "unicode": "%s héllo wörld 世界 \U0001F600 ́" % m,
        "reflike_inside": "%s see [ref: 12] and ref = 5; here" % m,
        "commentish": "%s http://x/y /* not a comment */ // nor this" % m,
        "parens": "%s (a) ; , ) ( ] [ } {{ }}" % m,
        "empty": "",
        "braces": "{}%s{{}}" % m,
        "bang": "%s wow! done!( ok" % m,
        "macrotext": "%s info!(x) warn!( error!" % m,
        "lead_digit": "5 apples %s" % m,
        "lead_bracket": "] closing first [ %s" % m,
        "lead_space": "  \t%s after layout" % m,
        "lead_backslash": "\\n%s after an escape \\t" % m,
        # the literal ends in an escaped backslash (a Windows directory): the quote after it closes the literal
        "trail_backslash": "%s cannot open C:\\\\spool\\\\" % m,
    }[cls]


def lay(cls, rnd, eol, indent="    "):
    """inter-token layout string."""
    return {
        "tight": "",
        "space": " ",
        "nl": eol + indent,
        "nl0": eol,                      # continuation lines starting in column 1
        "nlhug": eol + indent,           # as "nl", but the closing bracket follows the last argument on its line (not in FEATURES: asked for by name)
        # (no `/** .. */` here: between macro arguments that would be a doc comment, which is not valid Rust; `/***/`, `/**/` and
        #  `/*** .. ***/` are ordinary comments)
        "blockc": rnd.choice([" /* c, c; c */ ", " /***/ ", " /* * / ** c; */ ", " /**/ ", " /*** c, ***/ ", " /* c */ /*** d **/ ", " /* c **/ "]),
        "linec": " // c, c; (c" + eol + indent,
        "tabs": "\t \t",
        # the other characters Rust's lexer (and the grammar's WHITESPACE rule) treat as whitespace
        "exotic": "\u0085\u2028 \u200e\x0b\x0c\u2029\u200f",
    }[cls]


class Stmt:
    __slots__ = ("text", "paren", "after_target", "first_kv", "quote", "msg", "end", "feat", "marker",
                 "macro", "ref_msg", "ref_kv", "ref_kv_unusable", "nkv_total", "canonical", "kind", "note",
                 "ref_val_off", "rng")

    kind_name = "stmt"


def build_stmt(feat, marker, rnd, macros=None, eol="\n", ref_id=None, kv_ref=None, extra_kvs=None):
    """Build one log statement from a feature dict. Returns (pre_text, Stmt, post_text).

    kv_ref: None | ("valid", n, pos) | ("unusable", text, pos)  -- a `ref` key-value among the kvs
    ref_id: for feat['ref']=='valid' the number in the message prefix
    """
    macros = macros or DEFAULT_MACROS
    mod, name = rnd.choice(macros) if "macro" not in feat else macros[feat["macro"] % len(macros)]
    path = name if feat["path"] == "bare" else "%s::%s" % (mod, name)
    L = lambda: lay(feat["lay"], rnd, eol)
    # in the tight layout a separator may be followed directly by the next argument (`target: "t","m"`, `a = 1,b = 2;"m"`)
    SP = "" if (feat["lay"] == "tight" and rnd.random() < 0.3) else " "
    parts = []   # (tag, text)
    bang = feat.get("bang", "tight") if core.SPACED_BANG else "tight"
    parts.append(("path", path))
    parts.append(("lay", {"sp": " ", "cm": " /* level */ ", "nl": eol + "        ", "both": "  "}.get(bang, "")))
    parts.append(("bang", "!"))
    parts.append(("lay", {"sp_after": " ", "both": " "}.get(bang, "")))
    parts.append(("paren", "("))
    parts.append(("lay", L()))
    tgt = feat["target"]
    if tgt != "none":
        t = {"plain": "app", "spacey": "my app target", "colons": "app::db::pool", "punct": "a-b.c_d,e;f(g)",
             "slashes": "http://svc", "blockopen": "glob/*", "escq": 'a\\"b', "trail_backslash": "dir\\\\"}[tgt]
        parts.append(("target", 'target:%s"%s"%s,' % (" " if feat["lay"] != "tight" else " ", t, L())))
        parts.append(("lay", L() or SP))
    parts.append(("after_target", ""))
    kvs = []
    nkv = feat["nkv"]
    keys = rnd.sample(KV_KEYS, nkv) if nkv else []
    for i in range(nkv):
        shape = feat["kv%d" % i]
        kvs.append(kv_text(shape, keys[i], rnd))
    if extra_kvs:
        kvs = list(extra_kvs)
    ref_kv_pos = None
    if kv_ref is not None:
        kind, val, pos = kv_ref[:3]
        keytxt = kv_ref[3] if len(kv_ref) > 3 else "ref"
        pos = min(pos, len(kvs))
        kvs.insert(pos, "%s = %s" % (keytxt, val))
        ref_kv_pos = pos
    s_ref_val_off = None
    if kvs:
        for i, kv in enumerate(kvs):
            parts.append(("kv%d" % i, kv))
            if i < len(kvs) - 1:
                parts.append(("lay", L()))
                parts.append(("sep", ","))
                parts.append(("lay", L() or SP))
        parts.append(("lay", L()))
        parts.append(("sep", ";"))
        parts.append(("lay", L() or SP))
    body = msg_text(feat["msg"], marker, rnd)
    pref = ""
    ref_msg = None
    if feat["ref"] == "valid":
        ref_msg = ref_id if ref_id is not None else rnd.choice([0, 1, 7, 4294967295, rnd.randrange(1, 100000)])
        pref = ("[ref: %d] " % ref_msg) if (rnd.random() > 0.15 or ref_msg > 99999) else ("[ref: %0*d] " % (rnd.choice([2, 5, 10]), ref_msg))
        if rnd.random() < 0.12:
            # a hand-written reference need not be followed by the space breadlog itself writes (documented regex: no space)
            pref = pref[:-1] + rnd.choice(["", "", ":", "\\t", "\\n", "-", ".", ","])
    elif feat["ref"] == "nearmiss":
        pref = rnd.choice(["[ref:12] ", "[Ref: 12] ", "[ref: 12 ] ", " [ref: 12] ", "[ref: 99999999999] ",
                           "[ref: 4294967296] ", "[ref: -1] ", "[ref: 1x] ", "ref: 12 ", "[ref:  12] ", "[ref: ] ",
                           "[REF: 12] ", "(ref: 12) ", "[ref: 1 2] ", "[ref: ١٢] ", "[ref : 12] ",
                           # placeholders a developer leaves for the tool to fill in
                           "[ref: ?] ", "[ref: ??] ", "[ref: N] ", "[ref: TODO] ", "[ref: _] ", "[ref: #] ", "[ref: *] ", "[ref: XXXX] "])
    parts.append(("quote", '"'))
    parts.append(("msg", pref + body))
    parts.append(("endquote", '"'))
    tr = feat["trail"]
    if tr != "none":
        t = {"pos1": "x", "pos2": "x, y.len()", "named": "x = 5", "str": '"lit", x', "str_slashes": '"http://h", x'}[tr]
        parts.append(("lay", L()))
        parts.append(("sep", ","))
        parts.append(("lay", L() or " "))
        parts.append(("trail", t))
    parts.append(("lay", L() if feat["lay"] in ("space", "nl", "nl0", "tabs", "exotic") else ""))
    parts.append(("close", ")"))

    st = Stmt()
    off = 0
    text = ""
    st.first_kv = None
    st.ref_val_off = None
    for tag, t in parts:
        if tag == "paren":
            st.paren = off
        elif tag == "after_target":
            st.after_target = off
        elif tag == "kv0":
            st.first_kv = off
        elif tag == "quote":
            st.quote = off
        elif tag == "msg":
            st.msg = off
        if ref_kv_pos is not None and tag == "kv%d" % ref_kv_pos:
            st.ref_val_off = off + len(((kv_ref[3] if len(kv_ref) > 3 else "ref") + " = ").encode())
        text += t
        off += len(t.encode("utf-8"))
    if tgt == "none":
        st.after_target = st.paren + 1
    st.text = text
    st.end = off
    st.feat = dict(feat)
    st.marker = marker
    st.macro = path
    st.ref_msg = ref_msg
    st.ref_kv = kv_ref[1] if kv_ref and kv_ref[0] == "valid" else None
    st.ref_kv_unusable = bool(kv_ref and kv_ref[0] == "unusable")
    st.nkv_total = len(kvs)
    st.canonical = True
    st.kind = "stmt"
    st.note = None
    pre = pre_text(feat["pre"], rnd, eol)
    post = post_text(feat["post"], rnd, eol)
    return pre, st, post


def pre_text(cls, rnd, eol):
    return {
        "bol": "",
        "indent": rnd.choice(["    ", "\t", "        ", "  \t "]),
        "brace": "if ready { ",
        "semi": "let v = 1; ",
        "arrow": "    Some(v) => ",
        "closure": "    items.iter().for_each(|v| ",
        "call": "    wrap(",
        "stmt": '    log::debug!("other {}", 1); ',
        "strlit": '    let s = "plain text, with: punct!"; ',
        "charlit": "    let c = '\"'; let d = '\\''; ",
        "eq": "    let unit = ",
        "uni_indent": rnd.choice(["    /* 世界 hé */ ", "    /** 世界 hé **/ ", "    /***/ /* é */ "]),
        # hazards
        # nested in the arguments / body of another (unconfigured) macro invocation
        "in_format_arg": '    println!("size {}", { ',
        "in_macro_block": "    assert!(ready, \"not ready {}\", { ",
        "kw_return": "    return ",
        "kw_break": "    break ",
        "ident_comment": "    else_branch /* c */" + eol + "    ",
        "str_slashes": '    let u = "http://example.org/x"; ',
        "str_blockopen": '    let g = "src/*"; ',
    }[cls]


def post_text(cls, rnd, eol):
    return {"semi": ";", "paren": ");", "comma": ",", "brace": " }", "eof": "", "semi_str": '; "ok"'}[cls]


# ----------------------------------------------------------------------------- decoys (C11)

DECOY_CLASSES = ["line_comment", "block_comment", "doc_comment", "inner_doc", "block_multi", "unconfigured",
                 "prefix_name", "suffix_name", "other_path", "no_literal", "no_literal_ident", "in_string_escq",
                 "not_macro_call", "ident_only", "method_like", "nested_block",
                 # near-misses of the configured (module, name) pairs
                 "module_name_concat", "module_underscore_name", "name_module_swapped", "module_twice", "case_variant",
                 "name_trailing_underscore", "name_leading_underscore", "module_suffix_only", "name_of_one_module_of_other",
                 "deeper_path",
                 # comment and string corner cases
                 "block_stars", "block_star_space_slash", "block_nested_look", "line_trailing_backslash", "doc_block",
                 "no_literal_kv", "after_string_ending_in_backslash", "line_comment_after_string", "block_with_quote",
                 "line_comment_bare_cr",
                 # identifiers with non-ASCII characters next to a configured name; block comments of several paragraphs
                 "unicode_prefix_name", "unicode_suffix_name", "unicode_module_path", "block_multi_paragraph",
                 # paths that share segments with a configured multi-segment module; comments after lifetimes / loop labels
                 "module_trailing_segments", "module_leading_segments", "line_comment_after_lifetime", "block_comment_after_label",
                 "no_literal_kv_only", "no_literal_format_args",
                 "line_comment_with_quoted_word_after_string", "block_comment_with_quoted_word_after_string", "line_comment_glued_to_colon"]


def decoy_text(cls, marker, rnd, macros, eol):
    mod, name = rnd.choice(macros)
    names = set(n for _, n in macros)
    pfx = name + "x"
    while pfx in names:
        pfx += "x"
    sfx = "x" + name
    while sfx in names:
        sfx = "x" + sfx
    uncfg = rnd.choice([n for n in ["debug", "trace", "println", "format", "panic", "log", "tracing_info"] if n not in names])
    # a (module, name) combination that is NOT configured although both parts are (needs >= 2 entries)
    cross = None
    for m2, n2 in macros:
        for m3, n3 in macros:
            if (m2, n3) not in macros and n3 not in [n for m, n in macros if m == m2]:
                cross = (m2, n3)
    cv = name.upper() if name.upper() != name else name.capitalize()
    if cv in names:
        cv = name.upper() + "X"
    extra = {
        "module_name_concat": '%s%s!("%s module and name glued");' % (mod, name, marker),
        "module_underscore_name": '%s_%s!("%s module_name");' % (mod, name, marker),
        "name_module_swapped": '%s::%s!("%s swapped");' % (name, mod, marker),
        "module_twice": '%s::%s::%s!("%s module twice");' % (mod, mod, name, marker),
        "case_variant": '%s!("%s other letter case"); %s::%s!("%s other case module");' % (cv, marker, mod.upper() if mod.upper() != mod else mod + "X", name, marker),
        "name_trailing_underscore": '%s_!("%s trailing underscore");' % (name, marker),
        "name_leading_underscore": '_%s!("%s leading underscore");' % (name, marker),
        "module_suffix_only": '%s::%s!("%s suffix of module");' % ((mod[1:] or "m") if (mod[1:] or "m") != mod else "zz", name, marker),
        "name_of_one_module_of_other": ('%s::%s!("%s unconfigured pairing");' % (cross[0], cross[1], marker)) if cross
                                       else ('zz%s::%s!("%s unconfigured pairing");' % (mod, name, marker)),
        "deeper_path": 'crate::util::%s::%s!("%s deeper path");' % (mod, name, marker),
        "block_stars": '/** %s!("%s in starred block") **/' % (name, marker),
        "block_star_space_slash": '/* a * / %s!("%s after star space slash") */' % (name, marker),
        "block_nested_look": '/* /* %s!("%s nested-looking block") */' % (name, marker),
        "line_trailing_backslash": '// %s!("%s line comment ending in a backslash") \\' % (name, marker),
        "doc_block": '/*! %s::%s!("%s inner doc block") */' % (mod, name, marker),
        "no_literal_kv": '%s!(a = 1, b:? = x; MSG_%s);' % (name, marker),
        "after_string_ending_in_backslash": 'let p = "dir\\\\"; let q = "%s!(\\"%s quoted after backslash string\\")";' % (name, marker),
        "line_comment_after_string": 'let s = "text"; // %s!("%s comment after a string")' % (name, marker),
        "line_comment_bare_cr": '// note\r    %s!("%s after a bare carriage return inside a line comment");' % (name, marker),
        "block_with_quote": '/* it\'s "quoted %s!("%s in block with quotes") */' % (name, marker),
        "module_trailing_segments": ('%s::%s!("%s trailing segments of the configured module");' % ("::".join(mod.split("::")[1:]), name, marker)) if "::" in mod
                                    else ('%s!("%s no multi-segment module in this set");' % (uncfg, marker)),
        "module_leading_segments": ('%s::%s!("%s leading segments of the configured module");' % ("::".join(mod.split("::")[:-1]), name, marker)) if "::" in mod
                                   else ('%s!("%s no multi-segment module in this set");' % (uncfg, marker)),
        "line_comment_after_lifetime": 'fn svc_%s() -> &\'static str { "svc" } // can\'t use %s!("%s in a comment after a lifetime") here' % (marker.lower(), name, marker),
        "block_comment_after_label": '\'outer: loop { break \'outer; } /* don\'t call %s::%s!("%s in a block comment after a loop label") */' % (mod, name, marker),
        "no_literal_kv_only": '%s!(count = n_%s);' % (name, marker.lower()),
        "no_literal_format_args": '%s!(target: "net", code = code; format_args!("%s {}", 1));' % (name, marker),
        "line_comment_with_quoted_word_after_string": 'let m = "fast"; // the "slow" mode lost its %s!("%s quoted word earlier in the comment") line' % (name, marker),
        "block_comment_with_quoted_word_after_string": 'let m = "a/b"; /* see "docs" - %s::%s!("%s in a block comment after a string") */' % (mod, name, marker),
        "line_comment_glued_to_colon": 'let level:// chosen below: %s!("%s comment glued to a colon")' % (name, marker),
        "unicode_prefix_name": '%s%s!("%s non-ASCII letters before the name");' % (rnd.choice(["журнал", "µ", "é", "日本", "ß", "_ü"]), name, marker),
        "unicode_suffix_name": '%s%s!("%s non-ASCII letters after the name");' % (name, rnd.choice(["é", "ж", "_µ", "日"]), marker),
        "unicode_module_path": '%s::%s!("%s module path ending in a non-ASCII letter");' % (rnd.choice(["журнал", "modé", mod + "é", "crate::ü"]), name, marker),
        "block_multi_paragraph": '/* first paragraph%s%s   %s!("%s a");%s%s%s   second paragraph %s::%s!("%s b");%s   %s%s   %s!(k = 1; "%s c");%s */' % (
            eol, eol, name, marker, eol, "   " + eol if rnd.random() < 0.5 else eol, eol, mod, name, marker, eol, eol, eol, name, marker, eol),
    }
    for k in list(extra):
        # a near-miss that happens to coincide with a configured macro is not a decoy: neutralise it
        # (classes that use a configured name on purpose - without a literal message - are exempt)
        if k.startswith("no_literal"):
            continue
        head = extra[k].split("!(")[0]
        if head in names or any(head == "%s::%s" % mn for mn in macros):
            extra[k] = '// %s coincides with a configured macro in this set' % marker
    if cls in extra:
        return extra[cls]
    return {
        "line_comment": '// %s!("%s in comment")' % (name, marker),
        "block_comment": '/* %s::%s!("%s in block") */' % (mod, name, marker),
        "doc_comment": '/// %s!("%s in doc comment");' % (name, marker),
        "inner_doc": '//! example: %s!("%s in inner doc");' % (name, marker),
        "block_multi": '/*%s   %s!("%s in multi-line block");%s */' % (eol, name, marker, eol),
        "unconfigured": '%s!("%s unconfigured macro");' % (uncfg, marker),
        "prefix_name": '%s!("%s name with configured prefix");' % (pfx, marker),
        "suffix_name": '%s!("%s name with configured suffix");' % (sfx, marker),
        "other_path": '%s::%s!("%s other module path");' % (rnd.choice(["other", "x" + mod, mod + "x", "crate::" + mod, mod + "::sub"]), name, marker),
        "no_literal": '%s!(MSG_%s);' % (name, marker),
        "no_literal_ident": '%s!(target: "t", %s_fmt, 1);' % (name, marker.lower()),
        "in_string_escq": 'let s = "text %s!(\\"%s quoted\\") more";' % (name, marker),
        "not_macro_call": 'let %s = %s(1); // %s' % (name, name, marker),
        "ident_only": 'use %s::%s; // %s' % (mod, name, marker),
        "method_like": 'logger.%s("%s method call");' % (name, marker),
        "nested_block": '/* outer %s!("%s a") still comment %s!("%s b") */' % (name, marker, name, marker),
    }[cls]


class Item:
    """A piece of a generated file with its byte range."""
    __slots__ = ("kind", "text", "start", "end", "stmt", "cls", "marker", "line")

    def __init__(self, kind, text, stmt=None, cls=None, marker=None):
        self.kind = kind
        self.text = text
        self.stmt = stmt
        self.cls = cls
        self.marker = marker
        self.start = self.end = None
        self.line = None


class GenFile:
    """Accumulates items; tracks byte offsets."""

    def __init__(self, eol="\n"):
        self.items = []
        self.eol = eol
        self._buf = []
        self._len = 0

    def raw(self, text):
        self._buf.append(text)
        self._len += len(text.encode("utf-8"))

    def add(self, item):
        item.start = self._len
        self.raw(item.text)
        item.end = self._len
        self.items.append(item)
        return item

    def add_stmt(self, pre, st, post):
        self.raw(pre)
        it = Item("stmt", st.text, stmt=st, marker=st.marker)
        self.add(it)
        self.raw(post)
        return it

    def newline(self, n=1):
        self.raw(self.eol * n)

    def data(self):
        return "".join(self._buf).encode("utf-8")

    def stmts(self):
        return [it for it in self.items if it.kind == "stmt"]


def random_feat(rnd, hazards=False, structured=False):
    f = {k: rnd.choice(v) for k, v in FEATURES.items()}
    return f


NEUTRAL = {"macro": 0, "path": "bare", "target": "none", "nkv": 0, "kv0": "ident", "kv1": "ident", "kv2": "field", "msg": "plain", "trail": "none",
           "lay": "tight", "pre": "indent", "post": "semi", "ref": "none", "bang": "tight"}


def filler(rnd, eol):
    return rnd.choice([
        "fn helper_%d(x: u32) -> u32 { x + 1 }" % rnd.randrange(1000),
        "let total = a + b * 2;",
        "struct P { x: i32, y: i32 }",
        "// an ordinary comment",
        "// default location: C:\\ProgramData\\acme\\store\\",
        "/* a block comment */",
        "/** a starred banner **/",
        "/*********/",
        "/* * * */",
        "",
        "match v { Some(x) => x, None => 0 }",
        'println!("not a log macro {}", 1);',
        "let s = String::from(\"text\");",
        "#[derive(Debug)]",
        "impl T for U {}",
        "let héllo = \"wörld\";",
    ])


# ----------------------------------------------------------------------------- covering arrays (greedy t-way)

def covering_rows(features, t, rnd, candidates=30, fixed=None, max_rows=100000):
    """Greedy t-way covering array over dict name->values. Yields rows (dicts). Measured coverage is returned by
    tuple_coverage(); this generator only steers."""
    import itertools
    names = sorted(features)
    combos = list(itertools.combinations(names, t))
    uncovered = set()
    for c in combos:
        for vals in itertools.product(*[features[n] for n in c]):
            uncovered.add((c, vals))
    rows = 0
    while uncovered and rows < max_rows:
        best, bestgain = None, -1
        # seed candidate from an uncovered tuple
        seedc, seedv = next(iter(uncovered)) if rnd.random() < 0.5 else rnd.choice(list(uncovered)[:50])
        for _ in range(candidates):
            row = {n: rnd.choice(features[n]) for n in names}
            for n, v in zip(seedc, seedv):
                row[n] = v
            gain = 0
            for c in combos:
                if (c, tuple(row[n] for n in c)) in uncovered:
                    gain += 1
            if gain > bestgain:
                best, bestgain = row, gain
        for c in combos:
            uncovered.discard((c, tuple(best[n] for n in c)))
        rows += 1
        if fixed:
            best.update(fixed)
        yield best


def tuple_coverage(rows, features, t):
    """(required, covered) t-tuples over the given rows."""
    import itertools
    names = sorted(features)
    req = 0
    combos = list(itertools.combinations(names, t))
    for c in combos:
        n = 1
        for x in c:
            n *= len(features[x])
        req += n
    seen = set()
    for r in rows:
        for c in combos:
            seen.add((c, tuple(r.get(n) for n in c)))
    return req, len(seen)
